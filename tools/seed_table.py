#!/usr/bin/env python3
"""Emit the markdown table of DESIGN.md section 9a from seeded/*/meta.json (my_checks entries)."""
import json, glob, os, re
rows = []
for d in sorted(glob.glob("/verif/seeded/C*_*")):
    m = json.load(open(os.path.join(d, "meta.json")))
    sid = os.path.basename(d)
    mc = m.get("my_checks", {})
    summ = re.sub(r"\s+", " ", m["summary"])[:150].replace("|", "/")
    first = mc.get("quick_run1", {})
    final = mc.get("quick_final", mc.get("quick_run2", first))
    def short(r):
        res = r.get("result", "-")
        return {"d": "detected", "m": "missed", "i": "inconclusive"}.get(res[:1], res)
    unit = final.get("unit", "")
    um = re.search(r"unit=([\w]+)", unit)
    rows.append(f"| {sid} | {summ}… | {short(first)} | **{short(final)}** | {um.group(1) if um else ''} |")
print("| seed | change (author's summary, truncated) | first campaign | after strengthening | unit that reports it |")
print("|---|---|---|---|---|")
print("\n".join(rows))
