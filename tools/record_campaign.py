#!/usr/bin/env python3
"""Record, in each seeded/<id>/meta.json, what the registered checks reported for that seeded change.
usage: tools/record_campaign.py <campaign log> [label]"""
import json, os, re, sys
log, label = sys.argv[1], (sys.argv[2] if len(sys.argv) > 2 else "quick")
for line in open(log):
    m = re.match(r"(C\d+_\d+) tier=(\w+) rc=(\d+) (\d+)s \| (.*?) \| (.*)$", line.rstrip("\n"))
    if not m:
        continue
    sid, tier, rc, secs, first, unit = m.groups()
    p = f"/verif/seeded/{sid}/meta.json"
    if not os.path.exists(p):
        continue
    d = json.load(open(p))
    res = {"0": "missed (check passed)", "1": "detected (VIOLATION, natively replayed)", "2": "inconclusive (solver counterexample not confirmed natively)"}.get(rc, f"rc={rc}")
    d.setdefault("my_checks", {})[label] = {"command": f"git -C /repo apply seeded/{sid}/patch.diff && ./check {sid.split('_')[0]} --tier {tier}; git -C /repo checkout -- .",
                                            "result": res, "seconds": int(secs), "first_line": first.strip()[:300], "unit": unit.strip()[:300]}
    json.dump(d, open(p, "w"), indent=1)
    print(sid, res)
