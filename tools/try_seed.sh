#!/bin/sh
# usage: tools/try_seed.sh <patch.diff> <PID> [extra check args]
# applies a seeded defect to /repo, runs the check, ALWAYS reverts (also when interrupted).
p="$1"; pid="$2"; shift 2
cd /repo || exit 9
git diff --quiet || { echo "/repo not clean"; exit 9; }
trap 'git -C /repo checkout -- .; rm -f /tmp/try_seed.$$.log' EXIT INT TERM
git apply "$p" || { echo "patch does not apply"; exit 9; }
cd /verif
timeout ${SEED_TIMEOUT:-1800} ./check "$pid" "$@" > /tmp/try_seed.$$.log 2>&1; rc=$?
git -C /repo checkout -- .
echo "rc=$rc"; grep -E "^VIOLATION|^INCONCLUSIVE|^OK|^KNOWN|unit=" /tmp/try_seed.$$.log | cut -c1-300 | head -12
