#!/bin/sh
# Regenerate every claimed property's evidence (quick tier by default), sequentially.
cd /verif
tier=${1:-quick}
for p in $(python3 -c "import json;print(' '.join(c['property_id'] for c in json.load(open('MANIFEST.json'))['checks']))"); do
  s=$(date +%s); ./check $p --tier $tier > /tmp/run_all_$p.log 2>&1; rc=$?
  echo "$p rc=$rc $(( $(date +%s)-s ))s $(tail -1 /tmp/run_all_$p.log | cut -c1-160)"
done
