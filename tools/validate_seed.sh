#!/bin/sh
# usage: tools/validate_seed.sh <ID> <k>   -- confirms a seeded defect in a scratch worktree of /repo HEAD:
#   patch applies, crate builds, the 42 tests pass with it, the demonstration fails with it and passes without.
id=$1; k=$2; src=${SEED_SRC_ROOT:-/tmp/seed}/$id.out
wt=/tmp/wt_validate
[ -d $wt ] || git -C /repo worktree add -q --detach $wt HEAD
cd $wt && git checkout -q --detach $(git -C /repo rev-parse HEAD) && git checkout -q -- . && git clean -fdq -e target
if ! git apply --check $src/patch$k.diff 2>/dev/null; then echo "$id#$k APPLY_FAIL"; exit 0; fi
git apply $src/patch$k.diff
t=$(cargo test --workspace --offline 2>&1 | grep -E "^test result" | awk '{p+=$4; f+=$6} END{print p" passed "f" failed"}')
demo=fail_unknown
if [ -f $src/demo$k.rs ]; then
  cp $src/demo$k.rs tests/seed_demo.rs
  if cargo test --offline --test seed_demo >/tmp/wt_demo.log 2>&1; then with=PASS; else with=FAIL; fi
  git checkout -q -- src; 
  if cargo test --offline --test seed_demo >/tmp/wt_demo2.log 2>&1; then without=PASS; else without=FAIL; fi
  rm -f tests/seed_demo.rs
  demo="with_patch=$with without=$without"
elif [ -f $src/demo$k.diff ]; then
  git apply $src/demo$k.diff
  if PYO3_NO_PYTHON=1 cargo test --offline --features python --lib seed_demo >/tmp/wt_demo.log 2>&1; then with=PASS; else with=FAIL; fi
  git checkout -q -- . ; git apply $src/demo$k.diff
  if PYO3_NO_PYTHON=1 cargo test --offline --features python --lib seed_demo >/tmp/wt_demo2.log 2>&1; then without=PASS; else without=FAIL; fi
  demo="with_patch=$with without=$without (unit-test demo)"
fi
git checkout -q -- . ; git clean -fdq -e target
echo "$id#$k tests: $t ; demo: $demo"
