#!/bin/sh
# usage: tools/seed_campaign.sh [tier] [seed dirs...]   -- runs each seed's own property check on the seeded tree
tier=${1:-quick}; shift
cd /verif
[ $# -eq 0 ] && set -- $(ls seeded | grep "^C")
for d in "$@"; do
  pid=$(echo $d | cut -d_ -f1)
  s=$(date +%s)
  out=$(SEED_TIMEOUT=${SEED_TIMEOUT:-2400} tools/try_seed.sh /verif/seeded/$d/patch.diff $pid --tier $tier 2>&1)
  rc=$(echo "$out" | grep -o "^rc=[0-9]*" | head -1)
  first=$(echo "$out" | grep -E "^VIOLATION|^INCONCLUSIVE|^OK|patch does not" | head -1 | cut -c1-220)
  unit=$(echo "$out" | grep -E "^  unit=" | head -1 | cut -c1-260)
  echo "$d tier=$tier $rc $(( $(date +%s)-s ))s | $first | $unit"
done
