"""R units for Radau's main loop (C03/C18/C19 facts), one iteration from an arbitrary loop-head state.
Bounds specific to Radau (stated in the evidence): simplified Newton loop unrolled once
(`newton_maxiter = 1`), LU factorisations succeed or fail nondeterministically, matrices, stage
increments, norms and the convergence-rate bookkeeping (dynold, faccon, thqold, err_acc, h_acc, hold,
hhfac) are free data; the time variables x, h, xold, xout and every step-size computation of the
iteration itself are tracked with rounding."""
import time
from fractions import Fraction

import z3

from . import stepper as S
from . import replay
from .interp import REnum, RStruct, SInt, Unsupported, RVec
from .stepper import qv, zabs, EPS
from .units_step import Ob, _delta, _final_struct, path_script

_cache = {}

S.SOLVER_OVERRIDES.setdefault("RADAU", {"newton_maxiter": 1})
_op = lambda nm: (lambda it, dom: dom.opaque("lh_" + nm))
S.HAVOC_OVERRIDES.setdefault("RADAU", {nm: _op(nm) for nm in ("dynold", "faccon", "thqold", "err_acc", "h_acc", "hold", "hhfac")})


STRETCH = qv(Fraction(10001, 10000)) * (1 + qv(8 * EPS))


def _last(v):
    return v if (z3.is_expr(v) and z3.is_bool(v)) else z3.BoolVal(bool(v))


def inv_radau(env, w, dom, it, tiny_step=False):
    """x between x0 and strictly before xend; h points toward xend, is not longer than max_step and does not
    reach beyond xend; `last` exactly when the step ends on xend (not last => x + h strictly before xend)."""
    x, h = S.get(env, "x"), S.get(env, "h")
    dom.add(w.d(x.t - w.x0.t) >= 0)
    dom.add(w.d(w.xend.t - x.t) > 0)
    dom.add(w.d(h.t) > 0)
    if w.hmax is not None:
        # (the first step may be stretched by 0.01% to land on xend, as in RADAU5)
        dom.add(zabs(h.t) <= w.hmax.t * z3.If(_last(S.get(env, "last")), STRETCH, z3.RealVal(1)) + z3.If(_last(S.get(env, "last")), w.slack, z3.RealVal(0)))
    land = qv(EPS) * zabs(w.xend.t - x.t)   # h = fl(xend - x): one rounding of the difference (2u |xend - x|)
    dom.add(w.d(x.t + h.t - w.xend.t) <= land)
    dom.add(z3.Implies(_last(S.get(env, "last")), zabs(x.t + h.t - w.xend.t) <= land))
    dom.add(z3.Implies(z3.Not(_last(S.get(env, "last"))), w.d(x.t + h.t - w.xend.t) < 0))


def inv_facts(p, snap):
    w = p.w
    x, h = snap["x"], snap["h"]
    land = qv(EPS) * zabs(w.xend.t - x.t)
    f = {"x not before x0": w.d(x.t - w.x0.t) >= 0,
         "x not beyond xend": w.d(w.xend.t - x.t) >= 0,
         "h points toward xend": w.d(h.t) >= 0,
         "x + h does not reach beyond xend": w.d(x.t + h.t - w.xend.t) <= land,
         "last only when the step ends on xend": z3.Implies(_last(snap["last"]), zabs(x.t + h.t - w.xend.t) <= land),
         "a step that reaches xend is flagged last (otherwise the run cannot end with Success there)": z3.Implies(z3.Not(_last(snap["last"])), w.d(x.t + h.t - w.xend.t) < 0)}
    if w.hmax is not None:
        f["|h| <= max_step (0.01% more only when landing on xend)"] = zabs(h.t) <= w.hmax.t * z3.If(_last(snap["last"]), STRETCH, 1 + qv(4 * EPS)) + z3.If(_last(snap["last"]), w.slack, z3.RealVal(0))
    return f


def paths(backward, flags, part=None):
    """part = (first, reject): enumerate only loop heads with these values of the two flags (the four parts together are
    the full havoc; they run as separate units so that the enumeration is spread over processes)."""
    key = (backward, flags, tuple(sorted(part.items())) if isinstance(part, dict) else part)
    if key not in _cache:
        t0 = time.time()
        ho = dict(S.HAVOC_OVERRIDES.get("RADAU", {}))
        try:
            if isinstance(part, dict):
                S.HAVOC_OVERRIDES["RADAU"] = dict(ho, **{k: (lambda v: (lambda it, dom: v))(v) for k, v in part.items()})
            elif part is not None:
                S.HAVOC_OVERRIDES["RADAU"] = dict(ho, first=(lambda v: (lambda it, dom: v))(part[0]), reject=(lambda v: (lambda it, dom: v))(part[1]))
            ps = S.body_paths("RADAU", backward=backward, with_max_step=True, inv=inv_radau, flags_symbolic=flags, max_paths=60000)
        finally:
            S.HAVOC_OVERRIDES["RADAU"] = ho
        _cache[key] = (ps, time.time() - t0)
    return _cache[key]


def prefix(backward, with_first_step=True, with_max_step=True):
    key = ("prefix", backward, with_first_step, with_max_step)
    if key not in _cache:
        t0 = time.time()
        ps = S.prefix_paths("RADAU", backward=backward, with_max_step=with_max_step, with_first_step=with_first_step)
        _cache[key] = (ps, time.time() - t0)
    return _cache[key]


def radau_prefix(backward=False):
    """solve() up to the first loop head: initial evaluation/callback, counters, and the loop-head invariant
    established -- with and without first_step / max_step (first_step is NOT assumed shorter than the interval)."""

    def unit(tier="quick", seed=0):
        t0 = time.time()
        ob = Ob("radau_prefix" + ("_back" if backward else ""))
        pre = []
        for wf in (True, False):
            for wm in (True, False):
                pre += prefix(backward, wf, wm)[0]
        ob.paths = len(pre)
        for p in pre:
            w = p.w
            if p.outcome[0] == "panic":
                ob.failed.append((f"RADAU: panic before the main loop: {p.outcome[1]}", p.label(), {}, {}))
                continue
            for j, (t, args, outs) in enumerate(p.rec.ode_calls):
                ob.check(p, w.in_span(t.t), "RADAU: right-hand side evaluated outside [x0,xend] before the first step")
            if p.rec.callbacks:
                cb = p.rec.callbacks[0]
                ob.check(p, z3.And(cb["xold"].t == w.x0.t, cb["x"].t == w.x0.t), "RADAU: initial callback is not at xold == x == x0")
                ob.check(p, isinstance(cb["interp"], REnum) and cb["interp"].name == "None", "RADAU: initial callback carries an interpolant")
            if p.head is not None:
                ob.check(p, p.head["evals"].f["ode"] == len(p.rec.ode_calls), f"RADAU: at the first loop head evals.ode = {p.head['evals'].f['ode']} after {len(p.rec.ode_calls)} right-hand-side calls")
                ob.check(p, p.head["evals"].f["jac"] == len(p.rec.jac_calls), "RADAU: at the first loop head evals.jac differs from the Jacobian calls made")
                ob.check(p, p.head["steps"].f["accepted"] == 0 and p.head["steps"].f["total"] == 0, "RADAU: step counters not zero at the first loop head")
                for desc, fact in inv_facts(p, p.head).items():
                    ob.check(p, fact, f"RADAU: loop-head invariant not established by the prefix: {desc}")
            if len(ob.samples) < 3:
                ob.samples.append({"path": p.label(), "outcome": S.status_of(p.outcome) or p.outcome[1], "rhs_calls": len(p.rec.ode_calls)})
        return ob.result(t0, {"functions": ["RADAU::solve prefix (validation, initial evaluation, initial step, initial callback)"],
                              "bounds": f"n=1; {len(pre)} prefix paths; first_step/max_step present or absent, first_step only >= 16 ulp (NOT assumed <= the interval when max_step is absent)"},
                         replay_fn=lambda f: replay.radau_replay(backward, f))

    unit.__name__ = "radau_prefix" + ("_back" if backward else "")
    return unit


LITE = {"reject": False, "call_jac": True, "call_decomp": True}


def radau_iteration(backward=False, part=None, accepted_inv=True):
    """part: None (full havoc), (first, reject) (one of four parts), or a dict of loop-carried flags held fixed (LITE: the
    quick-tier variant -- `first` and `last` stay arbitrary, the invariant clauses are checked on rejection paths only)."""
    sfx = ("_back" if backward else "") + ("" if part is None else "_lite" if isinstance(part, dict) else f"_first{int(part[0])}_reject{int(part[1])}")

    def unit(tier="quick", seed=0):
        t0 = time.time()
        ob = Ob("radau_iteration" + sfx)
        undecided = []
        ps, gen_s = paths(backward, False, part)
        ob.paths = len(ps)
        for p in ps:
            w = p.w
            if p.outcome[0] == "panic":
                ob.failed.append((f"RADAU: panic inside the main loop: {p.outcome[1]}", p.label(), {}, path_script(p)))
                continue
            xh, hh = p.head["x"], p.head["h"]
            for j, (t, args, outs) in enumerate(p.rec.ode_calls):
                ob.check(p, w.in_span(t.t), f"RADAU: right-hand side evaluated outside [x0,xend] (+-4ulp) (call {j + 1} of the iteration)")
            for (t, _) in p.rec.jac_calls:
                ob.check(p, w.in_span(t.t), "RADAU: Jacobian evaluated outside [x0,xend] (+-4ulp)")
            for cb in p.rec.callbacks:
                ob.check(p, cb["xold"].t.eq(xh.t), "RADAU: callback xold is not the previous x (bit-for-bit)")
                ob.check(p, w.in_span(cb["x"].t), "RADAU: callback time outside [x0,xend] (+-4ulp)")
                ob.check(p, w.d(cb["x"].t - xh.t) > 0, "RADAU: accepted step does not move toward xend")
                if w.hmax is not None:
                    ob.check(p, zabs(cb["x"].t - xh.t) <= w.hmax.t * z3.If(_last(p.head["last"]), STRETCH, 1 + qv(8 * EPS)) + 2 * w.slack, "RADAU: accepted step longer than max_step (0.01% stretch only when landing)")
                ip = cb["interp"]
                ok_ip = isinstance(ip, REnum) and ip.name == "Some"
                ob.check(p, ok_ip, "RADAU: accepted step handed to the callback without an interpolant (dense output on)")
                if ok_ip:
                    f = ip.payload[0].f
                    ob.check(p, f["xold"].t.eq(xh.t), "RADAU: interpolant's left end is not the step's start (bit-for-bit)")
                    ob.check(p, zabs(f["xold"].t + f["h"].t - cb["x"].t) <= w.slack, "RADAU: interpolant does not span the accepted step")
            ev0, st0 = p.head["evals"], p.head["steps"]
            ev1, st1 = _final_struct(p, "evals"), _final_struct(p, "steps")
            d_ode, d_jac = _delta(ev0.f["ode"], ev1.f["ode"]), _delta(ev0.f["jac"], ev1.f["jac"])
            d_acc, d_tot = _delta(st0.f["accepted"], st1.f["accepted"]), _delta(st0.f["total"], st1.f["total"])
            ob.check(p, d_ode == len(p.rec.ode_calls), f"RADAU: evals.ode advanced by {d_ode} in an iteration that made {len(p.rec.ode_calls)} right-hand-side calls")
            ob.check(p, d_jac == len(p.rec.jac_calls), f"RADAU: evals.jac advanced by {d_jac} in an iteration that made {len(p.rec.jac_calls)} Jacobian calls")
            ob.check(p, d_acc == len(p.rec.callbacks), f"RADAU: steps.accepted advanced by {d_acc} in an iteration with {len(p.rec.callbacks)} callbacks")
            ob.check(p, d_tot is not None and d_acc is not None and d_tot >= d_acc, f"RADAU: steps.total advanced by {d_tot} < accepted {d_acc}")
            st = S.status_of(p.outcome)
            if st == "Success":
                lastx = p.rec.callbacks[-1]["x"] if p.rec.callbacks else xh
                ob.check(p, len(p.rec.callbacks) > 0, "RADAU: Success without an accepted step in the final iteration")
                ob.check(p, zabs(lastx.t - w.xend.t) <= w.slack, "RADAU: Success reported before reaching xend (or beyond it)")
            if st is None and p.exit == "continue":
                for desc, fact in inv_facts(p, p.after).items():
                    if p.rec.callbacks and not accepted_inv and desc not in ("x not before x0", "x not beyond xend"):
                        continue
                    if desc not in ("x not before x0", "x not beyond xend", "last only when the step ends on xend"):
                        # accepted step: the new step size comes out of a long chain of controller arithmetic; the solver is given 4 s
                        # per clause, and a clause it cannot decide is reported as UNDECIDED (stated in the evidence), not as proved
                        p.timeout_ms = 4000
                        n0 = len(ob.unknown)
                        ob.check(p, fact, f"RADAU: loop-head invariant not preserved: {desc}")
                        p.timeout_ms = 20000
                        if len(ob.unknown) > n0:
                            undecided.append(ob.unknown.pop())
                            ob.n -= 1
                    else:
                        ob.check(p, fact, f"RADAU: loop-head invariant not preserved: {desc}")
                if not p.rec.callbacks:
                    ob.check(p, zabs(p.after["h"].t) <= qv(Fraction(95, 100)) * zabs(hh.t) * (1 + qv(8 * EPS)), "RADAU: a rejected trial does not shrink the step by at least 5%")
            if len(ob.samples) < 3:
                ob.samples.append({"path": p.label(), "rhs_calls": len(p.rec.ode_calls), "callbacks": len(p.rec.callbacks), "outcome": st or p.outcome[1],
                                   "events": [e for e in p.events][:4]})
        return ob.result(t0, {"functions": ["RADAU::solve (one main-loop iteration)"],
                              "bounds": f"n=1; newton_maxiter=1; {len(ps)} body paths" + ("" if part is None else f" (loop heads with {part} held fixed; invariant clauses on rejection paths only)" if isinstance(part, dict) else f" (loop heads with first={part[0]}, reject={part[1]}: one of four parts)") + f"; LU success/failure nondeterministic; matrices, stage increments, norms and convergence bookkeeping are free data; "
                                        f"UNDECIDED within 4 s (not claimed): {len(undecided)} invariant-preservation clauses",
                              "undecided": undecided[:20],
                              "path_generation_s": round(gen_s, 1)},
                         replay_fn=lambda f: replay.radau_replay(backward, f))

    unit.__name__ = "radau_iteration" + sfx
    return unit


PARTS = [(False, False), (False, True), (True, False), (True, True)]


def radau_protocol(backward=False):
    def unit(tier="quick", seed=0):
        t0 = time.time()
        ob = Ob("radau_protocol" + ("_back" if backward else ""))
        ps, gen_s = paths(backward, True)
        ob.paths = len(ps)
        for p in ps:
            w = p.w
            if p.outcome[0] == "panic":
                ob.failed.append((f"RADAU: panic inside the main loop: {p.outcome[1]}", p.label(), {}, path_script(p)))
                continue
            flags = [e for e in p.events if e[0] == "flag"]
            st = S.status_of(p.outcome)
            ob.check(p, len(p.rec.callbacks) <= 1 and len(flags) == len(p.rec.callbacks), "RADAU: callback count and returned flags disagree")
            if not p.rec.callbacks:
                ob.check(p, st != "UserInterrupt", "RADAU: UserInterrupt without a callback")
                continue
            cb = p.rec.callbacks[0]
            fl = flags[0][2]
            calls_after = p.rec.ode_calls[cb["n_ode"]:]
            jac_after = p.rec.jac_calls[cb["n_jac"]:]
            before = p.rec.ode_calls[:cb["n_ode"]]
            # the derivative for the next step is evaluated at the accepted (x, y) before the callback
            ok = bool(before) and before[-1][0].t.eq(cb["x"].t) and all(a is b for a, b in zip(before[-1][1], cb["y"]))
            ob.check(p, ok, "RADAU: the derivative carried into the next step was not evaluated at the accepted (x, y)")
            if fl == "Interrupt":
                ob.check(p, st == "UserInterrupt", f"RADAU: Interrupt did not end the run with UserInterrupt (got {st or 'continue'})")
                ob.check(p, not calls_after and not jac_after, "RADAU: right-hand side / Jacobian evaluated after Interrupt")
            elif fl == "ModifiedSolution":
                ob.check(p, len(calls_after) >= 1, "RADAU: ModifiedSolution not followed by a derivative re-evaluation")
                if calls_after:
                    t, args, outs = calls_after[0]
                    ob.check(p, t.t.eq(cb["x"].t), "RADAU: after ModifiedSolution the derivative is not re-evaluated at the callback's x")
                    ob.check(p, all(a is b for a, b in zip(args, cb["y_after"])), "RADAU: after ModifiedSolution the derivative is not re-evaluated at the written state")
                    if st is None and p.after is not None and "f0" in p.after:
                        ob.check(p, all(a is b for a, b in zip(p.after["f0"].items(), outs)), "RADAU: the derivative re-evaluated after ModifiedSolution is not the one used by the next step")
            else:
                ob.check(p, not calls_after, f"RADAU: unexpected right-hand-side evaluation after a {fl} callback")
                if st is None and p.after is not None and "f0" in p.after and before:
                    ob.check(p, all(a is b for a, b in zip(p.after["f0"].items(), before[-1][2])), "RADAU: the next step does not start from the derivative evaluated at the accepted (x, y)")
            if st == "UserInterrupt":
                ob.check(p, fl == "Interrupt", "RADAU: UserInterrupt without an Interrupt flag")
            if len(ob.samples) < 3:
                ob.samples.append({"path": p.label(), "flag": fl, "outcome": st or p.outcome[1]})
        pre, _ = prefix(backward, True)
        for p in pre:
            flags = [e for e in p.events if e[0] == "flag"]
            st = S.status_of(p.outcome)
            if not p.rec.callbacks:
                continue
            cb = p.rec.callbacks[0]
            fl = flags[0][2] if flags else "Continue"
            calls_after = p.rec.ode_calls[cb["n_ode"]:]
            if fl == "Interrupt":
                ob.check(p, st == "UserInterrupt" and not calls_after, "RADAU: Interrupt at the initial callback did not stop immediately")
            elif fl == "ModifiedSolution":
                ok = len(calls_after) >= 1 and all(a is b for a, b in zip(calls_after[0][1], cb["y_after"])) and calls_after[0][0].t.eq(cb["x"].t)
                ob.check(p, ok, "RADAU: ModifiedSolution at the initial callback: derivative not re-evaluated at (x0, written state)")
        ob.paths += len(pre)
        return ob.result(t0, {"functions": ["RADAU::solve with an adversarial SolOut"], "bounds": f"n=1; newton_maxiter=1; {len(ps)} body paths + {len(pre)} prefix paths",
                              "path_generation_s": round(gen_s, 1)},
                         replay_fn=lambda f: replay.radau_replay(backward, f))

    unit.__name__ = "radau_protocol" + ("_back" if backward else "")
    return unit


def radau_initial_modified(tier="quick", seed=0):
    """Exact-domain dataflow fact on the prefix: when the INITIAL callback writes a new state (ModifiedSolution),
    everything the first step starts from -- the derivative f0 and the error scale scal -- is computed from the
    written state, not from the state it replaced (so that 'continue from the state the callback wrote' holds)."""
    import sympy as sp
    from . import sx
    from .units_rk import _result
    from . import tableau as TB
    t0 = time.time()
    q = TB.Q()
    failed = []
    n = 2

    def policy(it, k, x, y):
        for i in range(len(y)):
            y.set(i, sp.Symbol(f"ymod_{i}", real=True))
        return REnum("ModifiedSolution")

    paths = sx.exact_first_iteration("RADAU", n=n, iterations=0, flag_policy=policy, havoc=False, tol="vector", overrides={"newton_maxiter": 1})
    heads = [p for p in paths if p.outcome == ("end", "end_of_iteration")]
    if not heads:
        raise Unsupported("RADAU: no path reaches the main loop with a ModifiedSolution initial callback")
    old = {sp.Symbol(f"y0_{i}", real=True) for i in range(n)}
    for p in heads:
        env = p.env
        y = env.get("y").items()
        scal = env.get("scal").items()
        q.n += 1
        q.quantified += 1
        for i in range(n):
            if not (isinstance(y[i], sp.Symbol) and str(y[i]) == f"ymod_{i}"):
                failed.append("RADAU: after ModifiedSolution at the initial callback the solver does not continue from the written state")
            fs = scal[i].free_symbols if hasattr(scal[i], "free_symbols") else set()
            if sp.Symbol(f"ymod_{i}", real=True) not in fs or (fs & old):
                failed.append(f"RADAU: after ModifiedSolution at the initial callback the error scale of component {i} is computed from the replaced state (depends on {sorted(map(str, fs))})")
        calls = p.rec.ode_calls
        cb = p.rec.callbacks[0]
        after = calls[cb["n_ode"]:]
        q.n += 1
        if not after or any(a is not b for a, b in zip(after[0][1], y)):
            failed.append("RADAU: after ModifiedSolution at the initial callback the derivative is not re-evaluated at the written state")
        else:
            f0 = env.get("f0").items()
            if any(a is not b for a, b in zip(f0, after[0][2])):
                failed.append("RADAU: the first step does not start from the derivative re-evaluated at the written state")
    failed = list(dict.fromkeys(failed))
    return _result("radau_initial_modified", q, t0, failed,
                   {"functions": ["RADAU::solve prefix with an initial callback returning ModifiedSolution"], "bounds": f"n={n}; exact arithmetic; {len(heads)} prefix paths; dataflow (free symbols) of scal, f0, y at the first loop head"},
                   **_modinit(failed))


def _modinit(failed):
    if not failed:
        return dict(replayed=None, replay_src="", replay_log="")
    r = replay.modinit_replay("RADAU")
    return dict(replayed=r[0], replay_src=r[1], replay_log="; ".join(failed) + "\n" + r[2])


# ------------------------------------------------------------------------------ deeper Newton unrolling on a narrowed loop head
def paths_lite(maxiter, backward=False, flags=False):
    """Body paths with the simplified Newton loop unrolled `maxiter` times, from loop heads narrowed to the steady state
    (first = reject = last = false, Jacobian and decomposition due, no pending XOut): far fewer paths than the full
    havoc, which pays for the deeper unrolling."""
    key = ("lite", maxiter, backward, flags)
    if key not in _cache:
        t0 = time.time()
        so, ho = dict(S.SOLVER_OVERRIDES.get("RADAU", {})), dict(S.HAVOC_OVERRIDES.get("RADAU", {}))
        try:
            S.SOLVER_OVERRIDES["RADAU"] = dict(so, newton_maxiter=maxiter)
            fixed = {"first": False, "reject": False, "last": False, "call_jac": True, "call_decomp": True}
            S.HAVOC_OVERRIDES["RADAU"] = dict(ho, **{k: (lambda v: (lambda it, dom: v))(v) for k, v in fixed.items()})
            ps = S.body_paths("RADAU", backward=backward, with_max_step=True, inv=inv_radau, flags_symbolic=flags, max_paths=60000)
        finally:
            S.SOLVER_OVERRIDES["RADAU"], S.HAVOC_OVERRIDES["RADAU"] = so, ho
        _cache[key] = (ps, time.time() - t0)
    return _cache[key]


def radau_newton(maxiter=3, backward=False):
    """Counters and step/interpolant consistency with the Newton loop unrolled `maxiter` times (reaches the
    convergence-rate branches: predicted non-convergence, divergence, iteration limit)."""

    def unit(tier="quick", seed=0):
        t0 = time.time()
        nm = f"radau_newton{maxiter}" + ("_back" if backward else "")
        ob = Ob(nm)
        ps, gen_s = paths_lite(maxiter, backward)
        ob.paths = len(ps)
        for p in ps:
            w = p.w
            if p.outcome[0] == "panic":
                ob.failed.append((f"RADAU: panic inside the main loop: {p.outcome[1]}", p.label(), {}, path_script(p)))
                continue
            xh, hh = p.head["x"], p.head["h"]
            for j, (t, args, outs) in enumerate(p.rec.ode_calls):
                ob.check(p, w.in_span(t.t), f"RADAU: right-hand side evaluated outside [x0,xend] (+-4ulp) (call {j + 1} of the iteration)")
            for cb in p.rec.callbacks:
                ob.check(p, cb["xold"].t.eq(xh.t), "RADAU: callback xold is not the previous x (bit-for-bit)")
                ob.check(p, w.d(cb["x"].t - xh.t) > 0, "RADAU: accepted step does not move toward xend")
                ip = cb["interp"]
                ok_ip = isinstance(ip, REnum) and ip.name == "Some"
                ob.check(p, ok_ip, "RADAU: accepted step handed to the callback without an interpolant (dense output on)")
                if ok_ip:
                    f = ip.payload[0].f
                    ob.check(p, f["xold"].t.eq(xh.t), "RADAU: interpolant's left end is not the step's start (bit-for-bit)")
                    ob.check(p, f["h"].t.eq(hh.t), "RADAU: the interpolant's step is not the step the stages were computed with (h changed between the stage evaluations and the acceptance)")
                    ob.check(p, zabs(f["xold"].t + f["h"].t - cb["x"].t) <= w.slack, "RADAU: interpolant does not span the accepted step")
            ev0, st0 = p.head["evals"], p.head["steps"]
            ev1, st1 = _final_struct(p, "evals"), _final_struct(p, "steps")
            d_ode, d_jac = _delta(ev0.f["ode"], ev1.f["ode"]), _delta(ev0.f["jac"], ev1.f["jac"])
            d_acc = _delta(st0.f["accepted"], st1.f["accepted"])
            ob.check(p, d_ode == len(p.rec.ode_calls), f"RADAU: evals.ode advanced by {d_ode} in an iteration that made {len(p.rec.ode_calls)} right-hand-side calls")
            ob.check(p, d_jac == len(p.rec.jac_calls), f"RADAU: evals.jac advanced by {d_jac} in an iteration that made {len(p.rec.jac_calls)} Jacobian calls")
            ob.check(p, d_acc == len(p.rec.callbacks), f"RADAU: steps.accepted advanced by {d_acc} in an iteration with {len(p.rec.callbacks)} callbacks")
            st = S.status_of(p.outcome)
            if st is None and p.exit == "continue" and not p.rec.callbacks:
                ob.check(p, zabs(p.after["h"].t) <= qv(Fraction(95, 100)) * zabs(hh.t) * (1 + qv(8 * EPS)), "RADAU: a rejected trial does not shrink the step by at least 5%")
            if len(ob.samples) < 3:
                ob.samples.append({"path": p.label(), "rhs_calls": len(p.rec.ode_calls), "callbacks": len(p.rec.callbacks), "outcome": st or p.outcome[1]})
        return ob.result(t0, {"functions": ["RADAU::solve (one main-loop iteration, Newton loop unrolled)"],
                              "bounds": f"n=1; newton_maxiter={maxiter}; {len(ps)} body paths from steady-state loop heads (first = reject = last = false, Jacobian and decomposition due)",
                              "path_generation_s": round(gen_s, 1)},
                         replay_fn=lambda f: replay.radau_stiff_replay(f))

    unit.__name__ = f"radau_newton{maxiter}" + ("_back" if backward else "")
    return unit
