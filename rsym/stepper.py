"""One main-loop iteration of a solver's `solve`, executed symbolically from an ARBITRARY
loop-head state (inductive-step reading), in the Round domain:

  * time variables (x, h, xend, x0, max_step, ...) are z3 reals, every float operation on them
    carries its own relative rounding error |d| <= 2^-53;
  * everything derived from right-hand-side data is opaque (free), so every accept/reject
    pattern and every error value is covered;
  * loop-carried integers (steps.*, evals.*, nmax, stiffness counters) are symbolic counters;
  * the callback returns a nondeterministic ControlFlag (and writes fresh state on
    ModifiedSolution).

The prefix of `solve` (validation, initial evaluation, initial callback, initial h) is executed
along its paths separately (`prefix_paths`) to show that it establishes the loop-head invariant.
"""
import time
from fractions import Fraction

import z3

from . import domains as D
from . import model as M
from .interp import (Interp, RVec, RStruct, REnum, ElemRef, SInt, Unsupported, PathEnd, RustPanic, SymEnum, NONE, some,
                     explore, _Break, _Continue, _Return, Env)
from .sx import assigned_names

U = Fraction(1, 2 ** 53)
EPS = Fraction(1, 2 ** 52)


def qv(q):
    q = Fraction(q)
    return z3.RealVal(q.numerator) / z3.RealVal(q.denominator)


def zabs(t):
    return z3.If(t >= 0, t, -t)


def zmax(a, b):
    return z3.If(a >= b, a, b)


class World:
    """Symbolic inputs shared by prefix and body runs."""

    def __init__(self, dom, backward, with_max_step, with_first_step=True):
        self.dom = dom
        self.backward = backward
        self.x0 = dom.sym("x0")
        self.xend = dom.sym("xend")
        self.dir = -1 if backward else 1
        dom.add(self.xend.t < self.x0.t if backward else self.xend.t > self.x0.t)
        big = z3.RealVal(2) ** 300
        dom.add(z3.And(zabs(self.x0.t) <= big, zabs(self.xend.t) <= big))
        self.S = zmax(zabs(self.x0.t), zabs(self.xend.t))
        self.slack = qv(4 * EPS) * self.S
        self.h0 = dom.sym("h0") if with_first_step else None
        if with_first_step:
            # documented validity: a first step below the resolution of x is not a valid configuration
            dom.add(self.h0.t >= qv(16 * EPS) * self.S)
        self.hmax = dom.sym("max_step") if with_max_step else None
        if with_max_step:
            dom.add(self.hmax.t > 0)
            if with_first_step:
                dom.add(self.h0.t <= self.hmax.t)  # C11 precondition: first_step not larger than max_step
        self.rtol = dom.sym("rtol")
        self.atol = dom.sym("atol")
        dom.add(z3.And(self.rtol.t > 0, self.atol.t > 0))

    def d(self, term):
        """direction-signed value: dir * term"""
        return -term if self.backward else term

    def in_span(self, t, slack=True):
        s = self.slack if slack else z3.RealVal(0)
        return z3.And(self.d(t - self.x0.t) >= -s, self.d(self.xend.t - t) >= -s)


class IterPath:
    def __init__(self, **kw):
        self.__dict__.update(kw)

    def holds(self, fact):
        """fact (z3 Bool or Python bool) holds on every state of this path?  (solver: path & !fact unsat)"""
        if isinstance(fact, bool):
            if not fact:
                # structural violation on this path: any state of the path is a counterexample -- fetch one for the native replay
                self.last_model = None
                try:
                    if self.dom.check_sliced(z3.BoolVal(True), timeout_ms=10000) == z3.sat:
                        self.last_model = self.dom.last_sliced.model()
                except Exception:
                    pass
            return fact
        r = self.dom.check_sliced(z3.Not(fact), timeout_ms=getattr(self, "timeout_ms", 20000))
        if r == z3.unsat:
            return True
        if r == z3.sat:
            self.last_model = self.dom.last_sliced.model()
            return False
        return None

    def possible(self, fact):
        if isinstance(fact, bool):
            return fact
        return self.dom.check([fact]) == z3.sat

    def label(self):
        return "".join("T" if d else "F" for d in self.decisions)


def _flag_policy(symbolic):
    def policy(it, k, x, y):
        if not symbolic:
            return REnum("Continue")
        alts = [REnum("Continue"), REnum("Interrupt"), REnum("ModifiedSolution"), REnum("XOut", [it.d.fresh("xo")])]
        f = SymEnum(alts, why=f"flag{k}").resolve(it)
        if f.name == "ModifiedSolution":
            for i in range(len(y)):
                y.set(i, it.d.opaque(f"ymod{k}_{i}"))
        it.events.append(("flag", k, f.name))
        return f
    return policy


def _solver_args(it, dom, rec, w, method, n, flags_symbolic, max_steps):
    ov = {}
    if method != "RK4":
        ov["first_step"] = some(w.h0) if w.h0 is not None else NONE
        ov["max_step"] = some(w.hmax) if w.hmax is not None else NONE
    ov["max_steps"] = max_steps
    ov.update(SOLVER_OVERRIDES.get(method, {}))
    slf = M.solver_struct(it, method, ov)
    f = M.OdeModel(dom, rec, n)
    so = M.SolOutModel(rec, _flag_policy(flags_symbolic))
    y0 = RVec([dom.opaque(f"y0_{i}") for i in range(n)])
    if method == "RK4":
        h = dom.neg(w.h0) if w.backward else w.h0
        return [slf, f, w.x0, y0, w.xend, h, some(so)], y0
    return [slf, f, w.x0, y0, w.xend, M.tol_scalar(w.rtol), M.tol_scalar(w.atol), some(so)], y0


def havoc_value(dom, it, name, v):
    if isinstance(v, D.RV):
        return dom.opaque(f"lh_{name}") if v.opaque else dom.fresh(f"lh_{name}")
    if isinstance(v, bool) or (z3.is_expr(v) and z3.is_bool(v)):
        return dom.fresh_bool(f"lh_{name}")
    if isinstance(v, int):
        return SInt(f"lh_{name}")
    if isinstance(v, SInt):
        return SInt(f"lh_{name}")
    if isinstance(v, RVec):
        return RVec([havoc_value(dom, it, f"{name}{i}", x) for i, x in enumerate(v.items())])
    if isinstance(v, RStruct):
        return RStruct(v.name, {k: havoc_value(dom, it, f"{name}.{k}", x) for k, x in v.f.items()})
    if isinstance(v, REnum) and v.name in ("Some", "None"):
        return SymEnum([NONE, some(dom.fresh(f"lh_{name}"))], why=f"lh_{name}")
    if isinstance(v, SymEnum):
        return SymEnum([NONE, some(dom.fresh(f"lh_{name}"))], why=f"lh_{name}")
    return v


def mutated_names(node, out=None):
    """Names that are assigned, index-assigned, field-assigned or passed to a mutating method in node."""
    if out is None:
        out = set()
    if isinstance(node, tuple):
        if node and node[0] == "assign":
            lhs = node[2]
            while lhs[0] in ("index", "field", "paren"):
                lhs = lhs[1]
            if lhs[0] == "path" and len(lhs[1]) == 1:
                out.add(lhs[1][0])
        if node and node[0] == "mcall" and node[2] in ("copy_from_slice", "fill", "push", "swap", "clone_from_slice"):
            r = node[1]
            while r[0] in ("index", "field", "paren"):
                r = r[1]
            if r[0] == "path" and len(r[1]) == 1:
                out.add(r[1][0])
        if node and node[0] == "ref":
            pass
        for ch in node:
            mutated_names(ch, out)
    elif isinstance(node, list):
        for ch in node:
            mutated_names(ch, out)
    return out


def out_params(node, out=None):
    """Names passed as `&mut name` arguments anywhere in node (written by callees)."""
    if out is None:
        out = set()
    if isinstance(node, tuple):
        if node and node[0] in ("mcall", "call"):
            args = node[3] if node[0] == "mcall" else node[2]
            for a in args:
                if isinstance(a, tuple) and a and a[0] == "ref":
                    r = a[1]
                    while r[0] in ("index", "field", "paren"):
                        r = r[1]
                    if r[0] == "path" and len(r[1]) == 1:
                        out.add(r[1][0])
        for ch in node:
            out_params(ch, out)
    elif isinstance(node, list):
        for ch in node:
            out_params(ch, out)
    return out


# configuration bounds per method (stated in the evidence): BDF's simplified Newton loop is unrolled once or twice
SOLVER_OVERRIDES = {"BDF": {"newton_maxiter": 1}}

HAVOC_OVERRIDES = {
    # BDF's order is a loop-carried small integer that bounds loops: enumerate it instead of abstracting it
    "BDF": {"order": lambda it, dom: it.choose([1, 2, 3, 4, 5], "order")},
}


def body_paths(method, backward=False, with_max_step=True, n=1, inv=None, max_paths=6000, flags_symbolic=True,
               tiny_step=False):
    """Enumerate all feasible paths through ONE main-loop iteration from an arbitrary loop-head
    state satisfying `inv(env, world, dom)`."""
    items = M.method_items(method)
    out = []

    def run(preset):
        dom = D.Round()
        rec = M.Recorder()
        w = World(dom, backward, with_max_step)
        state = {"main": None, "head": None, "after": None, "prefix_counts": None}

        def on_loop(it, node, env):
            if state["main"] is not None and node is not state["main"]:
                return NotImplemented
            if state["main"] is None:
                state["main"] = node
            label = node[1]
            # ---- havoc every loop-carried variable
            names = mutated_names(node[2]) | (out_params(node[2]) & set(_all_names(env)))
            hv = []
            for name in sorted(names):
                e = env.lookup(name)
                if e is None:
                    continue
                v = e.vars[name]
                if v is it.uninit:
                    continue
                ov = HAVOC_OVERRIDES.get(method, {}).get(name)
                e.vars[name] = ov(it, dom) if ov else havoc_value(dom, it, name, v)
                hv.append(name)
            state["havoced"] = hv
            rec.ode_calls.clear()
            rec.jac_calls.clear()
            rec.callbacks.clear()
            del it.events[:]
            if inv is not None:
                inv(env, w, dom, it, tiny_step)
            state["head"] = snapshot(env)
            state["obs_start"] = len(it.sint_observations)
            try:
                it.block(node[2], env)
            except _Break as b:
                if b.label is None or b.label == label:
                    state["exit"] = "break"
                    state["after"] = snapshot(env)
                    return b.value
                raise
            except _Continue as c:
                if not (c.label is None or c.label == label):
                    raise
            state["exit"] = "continue"
            state["after"] = snapshot(env)
            raise PathEnd("next_iteration")

        hooks = M.make_hooks(dom, rec, n, extra={"on_loop": on_loop})
        it = Interp(dom, items, hooks)
        it.preset = preset
        args, y0 = _solver_args(it, dom, rec, w, method, n, flags_symbolic=False, max_steps=SInt("nmax"))
        # prefix along one canonical path (flags: Continue); body flags symbolic
        so = args[-1].payload[0]
        body_policy = _flag_policy(flags_symbolic)
        prefix_policy = _flag_policy(False)
        so.flag_policy = lambda it_, k, x, y: (body_policy if state["main"] is not None else prefix_policy)(it_, k, x, y)
        try:
            r = it.call_fn(f"{method}::solve", args)
            outc = ("return", r)
        except PathEnd as e:
            outc = ("end", e.kind)
        except RustPanic as e:
            outc = ("panic", str(e))
        return it.trail, IterPath(outcome=outc, rec=rec, dom=dom, w=w, head=state["head"], after=state["after"],
                                  exit=state.get("exit"), it=it, events=list(it.events), havoced=state.get("havoced"),
                                  obs_start=state.get("obs_start", 0))

    for dec, trail, p in explore(run, max_paths=max_paths):
        p.decisions = dec
        p.trail = trail
        p.dom.solver = None  # the incremental solver is only needed during exploration (memory)
        if p.outcome == ("end", "infeasible"):
            continue
        if p.head is None:
            # did not reach the main loop (validation error path): irrelevant for the iteration facts
            continue
        out.append(p)
    return out


def prefix_paths(method, backward=False, with_max_step=True, with_first_step=True, n=1, max_paths=2000):
    """All paths from the entry of solve() to the first loop head (or an early return)."""
    items = M.method_items(method)
    out = []

    def run(preset):
        dom = D.Round()
        rec = M.Recorder()
        w = World(dom, backward, with_max_step, with_first_step)
        state = {"head": None}

        def on_loop(it, node, env):
            if state["head"] is None and node[0] == "loop":
                state["head"] = snapshot(env)
                state["env"] = env
                raise PathEnd("loop_head")
            return NotImplemented

        hooks = M.make_hooks(dom, rec, n, extra={"on_loop": on_loop})
        it = Interp(dom, items, hooks)
        it.preset = preset
        args, y0 = _solver_args(it, dom, rec, w, method, n, flags_symbolic=True, max_steps=SInt("nmax"))
        try:
            r = it.call_fn(f"{method}::solve", args)
            outc = ("return", r)
        except PathEnd as e:
            outc = ("end", e.kind)
        except RustPanic as e:
            outc = ("panic", str(e))
        return it.trail, IterPath(outcome=outc, rec=rec, dom=dom, w=w, head=state["head"], it=it, events=list(it.events), y0=y0)

    for dec, trail, p in explore(run, max_paths=max_paths):
        p.decisions = dec
        p.trail = trail
        if p.outcome == ("end", "infeasible"):
            continue
        out.append(p)
    return out


def _all_names(env):
    names = []
    e = env
    while e is not None:
        names.extend(e.vars.keys())
        e = e.parent
    return names


def snapshot(env):
    snap = {}
    e = env
    while e is not None:
        for k, v in e.vars.items():
            if k not in snap:
                snap[k] = _copy(v)
        e = e.parent
    return snap


def _copy(v):
    if isinstance(v, RVec):
        return RVec([_copy(x) for x in v.items()])
    if isinstance(v, RStruct):
        return RStruct(v.name, {k: _copy(x) for k, x in v.f.items()})
    return v


def status_of(outcome):
    """Status name of a ('return', Ok(IntegrationResult{..})) outcome."""
    if outcome[0] != "return":
        return None
    v = outcome[1]
    if isinstance(v, REnum) and v.name == "Ok":
        r = v.payload[0]
        if isinstance(r, RStruct):
            st = r.f.get("status")
            return st.name if isinstance(st, REnum) else str(st)
    if isinstance(v, REnum) and v.name == "Err":
        return "Err"
    return None


def result_of(outcome):
    v = outcome[1]
    if isinstance(v, REnum) and v.name == "Ok" and isinstance(v.payload[0], RStruct):
        return v.payload[0]
    return None


# ----------------------------------------------------------------------------- loop-head invariants
def get(env_or_snap, name):
    if isinstance(env_or_snap, dict):
        if name not in env_or_snap:
            raise Unsupported(f"variable `{name}` not found in solve()")
        return env_or_snap[name]
    e = env_or_snap.lookup(name)
    if e is None:
        raise Unsupported(f"variable `{name}` not found in solve()")
    return e.vars[name]


def inv_dopri(env, w, dom, it, tiny_step=False):
    """Loop-head invariant of DOPRI5 / DOP853:
       x between x0 and xend (exactly: rounding is monotone), h points toward xend, |h| <= max_step,
       `last` is false, facold > 0."""
    x, h = get(env, "x"), get(env, "h")
    dom.add(w.d(x.t - w.x0.t) >= 0)
    # assumed strictly before xend; proved (non-strictly) again at the next loop head. The gap
    # -- a loop head with x == xend exactly and last == false -- needs |h| < ~100 ulp(x) and is
    # outside the claim (stated in the evidence).
    dom.add(w.d(w.xend.t - x.t) > 0)
    dom.add(w.d(h.t) > 0)
    if w.hmax is not None:
        dom.add(zabs(h.t) <= w.hmax.t)
    else:
        dom.add(zabs(h.t) <= zabs(w.xend.t - w.x0.t) * (1 + qv(4 * EPS)))
    last = get(env, "last")
    e = env.lookup("last")
    e.vars["last"] = False
    fo = get(env, "facold")
    dom.add(fo.t >= qv(Fraction(1, 10000)))
    if tiny_step:
        dom.add(qv(Fraction(1, 10)) * zabs(h.t) <= zabs(x.t) * qv(Fraction(1, 2 ** 53)))


def inv_holds_dopri(p, snap):
    """The invariant again at the next loop head (facts, to be checked with p.holds)."""
    w = p.w
    x, h = snap["x"], snap["h"]
    facts = {
        "x not before x0": w.d(x.t - w.x0.t) >= 0,
        "x not beyond xend": w.d(w.xend.t - x.t) >= 0,
        "h points toward xend": w.d(h.t) > 0,
        "last is false at the loop head": (snap["last"] is False) if isinstance(snap["last"], bool) else z3.Not(snap["last"]),
        "facold > 0": snap["facold"].t >= qv(Fraction(1, 10000)),
    }
    if w.hmax is not None:
        facts["|h| <= max_step"] = zabs(h.t) <= w.hmax.t
    return facts


def inv_rk23(env, w, dom, it, tiny_step=False):
    """Loop-head invariant of RK23: x between x0 and xend, h toward xend, |h| <= max_step."""
    x, h = get(env, "x"), get(env, "h")
    dom.add(w.d(x.t - w.x0.t) >= 0)
    dom.add(w.d(w.xend.t - x.t) > 0)
    dom.add(w.d(h.t) > 0)
    if w.hmax is not None:
        dom.add(zabs(h.t) <= w.hmax.t)
    else:
        dom.add(zabs(h.t) <= zabs(w.xend.t - w.x0.t) * (1 + qv(4 * EPS)))
    # RK23 has no underflow guard of its own: steps below the resolution of x are outside this unit
    # (the guard fact is a separate obligation)
    if not tiny_step:
        dom.add(zabs(h.t) >= qv(16 * EPS) * zmax(zabs(x.t), zabs(w.xend.t)))


def inv_holds_rk23(p, snap):
    w = p.w
    x, h = snap["x"], snap["h"]
    facts = {
        "x not before x0": w.d(x.t - w.x0.t) >= 0,
        "x not beyond xend": w.d(w.xend.t - x.t) >= 0,
        "h points toward xend": w.d(h.t) > 0,
    }
    if w.hmax is not None:
        facts["|h| <= max_step"] = zabs(h.t) <= w.hmax.t
    return facts


def inv_rk4(env, w, dom, it, tiny_step=False):
    x = get(env, "x")
    dom.add(w.d(x.t - w.x0.t) >= 0)
    dom.add(w.d(w.xend.t - x.t) > 0)
    # the fixed step is never reassigned (a loop-local `h` of the same name is the step actually taken)
    h = get(env, "h")
    dom.add(w.d(h.t) == w.h0.t)


def inv_holds_rk4(p, snap):
    w = p.w
    x = snap["x"]
    return {
        "x not before x0": w.d(x.t - w.x0.t) >= 0,
        "x not beyond xend": w.d(w.xend.t - x.t) >= 0,
    }
