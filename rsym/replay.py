"""Native replay for engine R: re-derive from the EXECUTING binary what R extracted
symbolically, and re-evaluate violated obligations on the natively derived numbers.

replayed = True  : the violation is visible in the native run (report VIOLATION)
replayed = False : the native run contradicts R's extraction (encoder slip -> inconclusive)
replayed = None  : could not be replayed natively
"""
import json
from fractions import Fraction
import os
import subprocess

import sympy as sp

from .trees import trees, gamma

VERIF = os.path.dirname(os.path.dirname(os.path.abspath(__file__)))
BUILD = os.environ.get("VERIF_BUILD_DIR", os.path.join(VERIF, ".build"))
ENV = dict(os.environ, CARGO_NET_OFFLINE="true")
_built = {}


def build(profile="release"):
    if profile in _built:
        return _built[profile]
    tdir = os.path.join(BUILD, "replay")
    cmd = ["cargo", "build", "--offline", "--target-dir", tdir]
    if profile == "release":
        cmd.append("--release")
    p = subprocess.run(cmd, cwd=os.environ.get("VERIF_REPLAY_CRATE", os.path.join(VERIF, "replay")), stdout=subprocess.PIPE, stderr=subprocess.STDOUT, text=True, env=ENV)
    if p.returncode != 0:
        raise RuntimeError("replay crate did not build:\n" + p.stdout[-1500:])
    exe = os.path.join(tdir, "release" if profile == "release" else "debug", "probe")
    _built[profile] = exe
    return exe


def probe(args, profile="release", timeout=60):
    exe = build(profile)
    p = subprocess.run([exe] + [str(a) for a in args], stdout=subprocess.PIPE, stderr=subprocess.PIPE, text=True, timeout=timeout)
    if p.returncode != 0:
        raise RuntimeError(f"probe {args} failed rc={p.returncode}: {p.stderr[-500:]}")
    return json.loads(p.stdout)


def _f(v):
    return float(v) if not isinstance(v, str) else float(v.replace("inf", "inf").replace("NaN", "nan"))


def native_tableau(method, h=0.5, profile="release"):
    d = probe(["tableau", method, h], profile)
    s = d["calls"]
    A = [[0.0] * s for _ in range(s)]
    c = [0.0] * s
    b = [0.0] * s
    dense = [[0.0] * len(d["thetas"]) for _ in range(s)]
    for imp in d["impulse"]:
        j = imp["j"] - 1
        for i in range(s):
            A[i][j] = _f(imp["y"][i]) / h
            c[i] = _f(imp["t"][i]) / h
        b[j] = _f(imp["y_new"]) / h
        dense[j] = [_f(v) / h for v in imp["dense"]]
    return {"A": A, "b": b, "c": c, "dense": dense, "thetas": d["thetas"], "s": s}


def _phi(t, A, s):
    if t == ():
        return [1.0] * s
    out = [1.0] * s
    for ch in t:
        vc = _phi(ch, A, s)
        out = [out[i] * sum(A[i][j] * vc[j] for j in range(s)) for i in range(s)]
    return out


def tableau_replay(method, T, failed, p=None):
    """Compare R's tableau with the native one, then re-evaluate the order conditions natively."""
    from .units_rk import SPEC
    log = []
    try:
        nat = native_tableau(method)
    except Exception as e:
        return None, "", f"native probe failed: {e}"
    src = f"probe tableau {method} 0.5   (impulse right-hand side; /verif/replay/src/main.rs)"
    s = min(nat["s"], T.s)
    worst = 0.0
    for i in range(s):
        for j in range(s):
            worst = max(worst, abs(nat["A"][i][j] - float(T.A[i][j])))
        worst = max(worst, abs(nat["b"][i] - float(T.b[i])), abs(nat["c"][i] - float(T.c[i])))
    log.append(f"max |native - extracted| over A,b,c = {worst:.3e} (stages native {nat['s']}, extracted {T.s})")
    if worst > 1e-9 or nat["s"] != T.s:
        log.append("the executing binary applies a different tableau than R extracted -> encoder slip")
        return False, src, "\n".join(log)
    pmax = SPEC[method]["p"] if p is None else p
    bad = []
    for pp in range(1, pmax + 1):
        for t in trees(pp):
            ph = _phi(t, nat["A"], nat["s"])
            r = sum(nat["b"][i] * ph[i] for i in range(nat["s"])) - 1.0 / gamma(t)
            if abs(r) > 1e-9:
                bad.append((pp, str(t), r))
    for i in range(nat["s"]):
        rs = sum(nat["A"][i]) - nat["c"][i]
        if abs(rs) > 1e-9:
            bad.append((0, f"row sum stage {i + 1}", rs))
    log.append(f"native order/row-sum conditions violated: {bad[:6]}")
    structural = [f for f in failed if "FSAL" in f or "reused as k1" in f or "not y + h" in f or "estimator" in f or "next k1" in f]
    if bad:
        return True, src, "\n".join(log)
    if any("not evaluated at" in f for f in failed):
        ok, l2 = stage_times_native(method)
        log.append(l2)
        if ok is False:
            return True, src + "\nprobe fsal " + method + " 0.25", "\n".join(log)
    if structural:
        for dense in (True, False):
            ok, l2 = fsal_native(method, dense=dense)
            log.append(f"dense_output={dense}: {l2}")
            if ok is False:
                return True, src + "\nprobe fsal " + method + " 0.25" + ("" if dense else " nodense"), "\n".join(log)
    return None, src, "\n".join(log)


def fsal_native(method, h=0.25, dense=True):
    """Two accepted steps on y' = cos t + y/2: the derivative used as k1 in step 2 (recovered
    from the first stage argument of step 2) must equal f(x1, y1)."""
    import math
    try:
        d = probe(["fsal", method, h] + ([] if dense else ["nodense"]))
    except Exception as e:
        return None, f"fsal probe failed: {e}"
    cbs = d["callbacks"]
    if len(cbs) < 3:
        return None, "fsal probe: fewer than two accepted steps"
    x1, y1 = _f(cbs[1][1]), _f(cbs[1][2])
    ts = [_f(v) for v in d["t"]]
    ys = [_f(v) for v in d["y"]]
    # first call strictly after x1 in time belongs to step 2, stage 2
    f1 = math.cos(x1) + 0.5 * y1
    for t, y in zip(ts, ys):
        if t > x1 + 1e-15:
            c2h = t - x1
            k1_used = (y - y1) / c2h  # valid when a21 == c2 (true for all four tableaux)
            ok = abs(k1_used - f1) <= 1e-7 * max(1.0, abs(f1))
            return ok, f"step-2 first stage uses k1 = {k1_used!r}, f(x1,y1) = {f1!r}"
    return None, "fsal probe: no stage of a second step found"


def stage_times_native(method, h=0.25):
    """Two accepted steps on the smooth problem: every right-hand-side call made after the first
    accepted step must lie inside the second step [x1, x2]."""
    try:
        d = probe(["fsal", method, h])
    except Exception as e:
        return None, f"fsal probe failed: {e}"
    cbs = d["callbacks"]
    if len(cbs) < 3:
        return None, "fewer than two accepted steps"
    x1, x2 = _f(cbs[1][1]), _f(cbs[2][1])
    ts = [_f(v) for v in d["t"]]
    # calls are in program order: find the first call at x1+something (start of step 2 trial)
    n1 = None
    for i, t in enumerate(ts):
        if t > x1 + 1e-15:
            n1 = i
            break
    if n1 is None:
        return None, "no call of a second step found"
    lo, hi = min(x1, x2), max(x1, x2)
    bad = [(i + 1, t) for i, t in enumerate(ts) if i >= n1 and not (lo - 1e-12 <= t <= hi + 1e-12)]
    return (False if bad else True), f"step 2 = [{x1}, {x2}]; calls outside it (index, time): {bad[:5]}"


def ondemand_native(method, h=0.25):
    """dense_output(false) + XOut: the interpolant handed out on demand must equal the always-on one."""
    try:
        d = probe(["ondemand", method, h])
    except Exception as e:
        return None, f"ondemand probe failed: {e}"
    on, od = d["runs"][0], d["runs"][1]
    # match steps by their bounds
    worst = 0.0
    n = 0
    for b, dn in zip(od["bounds"], od["dense"]):
        for b2, dn2 in zip(on["bounds"], on["dense"]):
            if abs(_f(b[0]) - _f(b2[0])) < 1e-12 and abs(_f(b[1]) - _f(b2[1])) < 1e-12:
                n += 1
                worst = max(worst, max(abs(_f(u) - _f(v)) for u, v in zip(dn, dn2)))
    if n == 0:
        return None, "on-demand run handed out no interpolant"
    return (worst <= 1e-9), f"{n} on-demand interpolant(s) compared with the always-on ones: max difference {worst:.3e}"


def dense_replay(method, T, failed, config="default"):
    from .units_rk import SPEC
    log = []
    src = f"probe tableau {method} 0.5 ; probe fsal {method} 0.25 ; probe ondemand {method} 0.25   (/verif/replay/src/main.rs)"
    if any("not evaluated at" in f for f in failed):
        ok, l = stage_times_native(method)
        log.append(l)
        if ok is False:
            return True, src, "\n".join(log)
    if config == "ondemand":
        ok, l = ondemand_native(method)
        log.append(l)
        return (True if ok is False else (False if ok else None)), src, "\n".join(log)
    try:
        nat = native_tableau(method)
    except Exception as e:
        return None, "", f"native probe failed: {e}"
    # translator validation: R's b_i(theta) at the sampled thetas
    worst = 0.0
    th = sp.Symbol("theta", real=True)
    for i in range(min(nat["s"], T.s)):
        for k, tv in enumerate(nat["thetas"]):
            worst = max(worst, abs(float(T.bth[i].subs(th, sp.Rational(tv))) - nat["dense"][i][k]))
    log.append(f"max |native - extracted| dense weights at sampled theta = {worst:.3e}")
    if worst > 1e-9:
        return False, src, "\n".join(log + ["native interpolant differs from R's composition -> encoder slip"])
    q = SPEC[method]["q"]
    bad = []
    for pp in range(1, q + 1):
        for t in trees(pp):
            ph = _phi(t, nat["A"], nat["s"])
            for k, tv in enumerate(nat["thetas"]):
                r = sum(nat["dense"][i][k] * ph[i] for i in range(nat["s"])) - tv ** pp / gamma(t)
                if abs(r) > 1e-9:
                    bad.append((pp, str(t), tv, r))
                    break
    log.append(f"native continuous order conditions violated (order, tree, theta, residual): {bad[:5]}")
    return (True if bad else None), src, "\n".join(log)


def script_replay(method, backward, failed, kind):
    """Native confirmation of a stepper-control violation: see rsym/replay_script.py."""
    try:
        from . import replay_script
    except ImportError:
        return None, "", "scripted replay not available"
    return replay_script.confirm(method, backward, failed, kind)


def handler_replay(failed):
    """Native confirmation of an output-handler violation: see rsym/replay_handler.py."""
    try:
        from . import replay_handler
    except ImportError:
        return None, "", "handler replay not available"
    return replay_handler.confirm(failed)


def span_replay(method, backward):
    """Native: scripted runs over the (x0, xend) battery; an accepted step whose reported x differs
    from interpolant.bounds() (recomputed xold + h) confirms."""
    try:
        from . import replay_script as RS
    except ImportError:
        return None, "", "scripted replay not available"
    n = 0
    for (x0, xend, h0, ms) in RS.battery(method, backward):
        for pat in ("A", "AA", "AAA", "RA"):
            try:
                d = RS.run(method, x0, xend, h0, ms, 100000, pat, "C")
            except Exception:
                continue
            n += 1
            if not d.get("ok"):
                continue
            cbs = d["callbacks"][1:]
            for k, (cb, b) in enumerate(zip(cbs, d["bounds"])):
                lo, hi = float(b[0]), float(b[1])
                xo, x = float(cb[0]), float(cb[1])
                if (min(xo, x), max(xo, x)) != (lo, hi):
                    return True, f"probe script {method} {x0!r} {xend!r} {h0!r} {ms!r} 100000 {pat} C", \
                        f"accepted step {k + 1}: callback (xold, x) = ({xo!r}, {x!r}) but interpolant.bounds() = ({lo!r}, {hi!r})"
    return None, "scripted battery", f"{n} native runs: callback intervals equal interpolant bounds everywhere"


def radau_tolerance_replay():
    try:
        d = probe(["radautol"])
    except Exception as e:
        return None, "", f"probe failed: {e}"
    differ = d["scalar"]["naccpt"] != d["vector"]["naccpt"] or d["scalar"]["y_end"] != d["vector"]["y_end"]
    return (True if differ else None), "probe radautol  (Radau, y_i' = -(1+i) y_i, n = 8, rtol 1e-6 scalar vs [1e-6; 8])", json.dumps(d)


def first_step_replay():
    """Native: first_step larger than the interval through the public solve_ivp."""
    try:
        d = probe(["firststep"])
    except Exception as e:
        return None, "", f"probe failed: {e}"
    bad = [m for m, r in d.items() if not r["ends_at_xend"]]
    return (True if bad else None), "probe firststep  (solve_ivp on [0,1] with first_step = 2.5, every method)", json.dumps(d)


def bdf_judge(cfg, d):
    """Facts of units_bdf re-stated on a native BDF trace (y' = cos t + y/2, written state 0.25)."""
    import math
    from . import replay_script as RS
    x0, xend, h0, ms, mxs, flags, nmi, rtol, nan_at = cfg
    out = []
    if not d.get("ok"):
        return out
    eps = 2.0 ** -52
    S = max(abs(x0), abs(xend))
    slack = 4 * eps * S
    cbs = [[float(v) for v in c] for c in d["callbacks"]]
    # contiguity "to rounding" (BDF passes x - h as xold): judge() demands bit-equality, so patch it here
    cbs2 = [list(c) for c in cbs]
    for k in range(1, len(cbs2)):
        if abs(cbs2[k][0] - cbs2[k - 1][1]) <= slack:
            cbs2[k][0] = cbs2[k - 1][1]
    d2 = dict(d, callbacks=cbs2)
    out += RS.judge("BDF", (x0, xend, h0, ms, mxs, "A", flags), d2)
    for k, bd in enumerate(d["bounds"]):
        # interpolant k belongs to callback k+1
        if k + 1 < len(cbs):
            lo, hi = float(bd[0]), float(bd[1])
            a, b = cbs[k][1], cbs[k + 1][1]
            if abs(min(lo, hi) - min(a, b)) > slack or abs(max(lo, hi) - max(a, b)) > slack:
                out.append(("protocol", f"interpolant of callback {k + 1} spans [{lo!r},{hi!r}], the accepted step is [{a!r},{b!r}]"))
                break
    ts = [float(v) for v in d["t"]]
    ys = [float(v) for v in d["y"]]
    dirn = 1.0 if xend > x0 else -1.0
    for k, fl in enumerate(flags):
        if fl == "I":
            break
        if fl == "M" and k < len(cbs):
            i0 = d["calls_at_cb"][k]
            # history restart: the first Newton evaluation of the next step is at the predictor y + h f(x, y)
            if i0 + 1 < len(ts) and ts[i0] == cbs[k][1]:
                x, y = cbs[k][1], 0.25
                f0 = math.cos(x) + 0.5 * y
                hs = ts[i0 + 1] - x
                pred = y + hs * f0
                if hs * dirn > 0 and abs(ys[i0 + 1] - pred) > 1e-9 * (1 + abs(pred)) + 1e-6 * abs(hs):
                    out.append(("protocol", f"after ModifiedSolution at callback {k} the next step's predictor is y={ys[i0 + 1]!r}, expected y + h f = {pred!r} (h={hs!r})"))
    return out


def bdf_battery(backward):
    spans = [(0.0, 1.0), (3.0, 3.75), (-1.0, 0.5)]
    if backward:
        spans = [(b, a) for a, b in spans]
    for (x0, xend) in spans:
        span = abs(xend - x0)
        for h0 in (span / 8, span / 3, span, 2 * span, None):
            for ms in (None, span / 2.5, span / 4):
                if ms is not None and h0 is not None and h0 > ms:
                    continue
                for flags in ("C", "CM", "CCM", "CCCCM", "CI", "CCI", "M", "I", "CX", "CMCM"):
                    for nmi, nan_at in ((4, 0), (1, 0), (4, 3), (4, 6), (2, 5)):
                        for rtol in (1e-3, 1e-8):
                            yield (x0, xend, h0, ms, 100000, flags, nmi, rtol, nan_at)


def _bdf_kinds(failed):
    want = set()
    for f in failed:
        d = f[0]
        if "evals." in d or "steps." in d:
            want.add("counters")
        elif any(w in d for w in ("ModifiedSolution", "Interrupt", "xold", "interpolant", "callback count", "initial callback")):
            want.update(("protocol", "status"))
        elif "budget" in d:
            want.update(("budget", "status"))
        else:
            want.update(("times", "status", "maxstep", "hang"))
    return want


def bdf_replay(backward, failed):
    log = []
    n = 0
    want = _bdf_kinds(failed) if failed else None
    for cfg in bdf_battery(backward):
        x0, xend, h0, ms, mxs, flags, nmi, rtol, nan_at = cfg
        try:
            d = probe(["bdf", repr(x0), repr(xend), "none" if h0 is None else repr(h0), "none" if ms is None else repr(ms), mxs, flags, nmi, repr(rtol), nan_at], timeout=20)
        except Exception as e:
            log.append(f"probe failed for {cfg}: {str(e)[:100]}")
            continue
        n += 1
        bad = [b for b in bdf_judge(cfg, d) if want is None or b[0] in want]
        if bad:
            k, desc = bad[0]
            log.append(f"native violation [{k}] {desc}")
            log.append(f"after {n} native runs")
            return True, f"probe bdf {x0!r} {xend!r} {h0!r} {ms!r} {mxs} {flags} {nmi} {rtol!r} {nan_at}   (real BDF, y'=cos t + y/2, scripted callback; /verif/replay/src/main.rs)", "\n".join(log)
    log.append(f"{n} native BDF runs: no native violation of kind {sorted(want) if want else 'any'}")
    return None, "native BDF battery (rsym/replay.py bdf_battery)", "\n".join(log)


def _zval(m, v):
    """float of a z3 model value (rational or algebraic)."""
    import z3
    r = m.eval(v, model_completion=True)
    if z3.is_rational_value(r):
        return float(Fraction(r.numerator_as_long(), r.denominator_as_long()))
    if z3.is_algebraic_value(r):
        return float(r.approx(30).as_decimal(40).rstrip("?"))
    return float(str(r))


def accept_replay(method, n, err_form, values):
    """Native confirmation of an acceptance-contract violation: the real method takes its first
    trial step with the model's stage values; violated natively iff that trial is accepted and the
    error estimate h*sum(e_j k_j) exceeds sqrt(n)(atol_i + rtol_i max(|y_i|, |y_new_i|)) for a component."""
    import math
    x0, h, y0, rt, at, ks = values["x0"], values["h"], values["y0"], values["rtol"], values["atol"], values["k"]
    sv = lambda v: ";".join(repr(float(c)) for c in v)
    args = ["accept", method, repr(x0), repr(h), sv(y0), sv(rt), sv(at), ",".join(sv(k) for k in ks)]
    src = "probe " + " ".join(args) + "   (real solver, first trial step with the solver model's stage values)"
    try:
        d = probe(args, timeout=20)
    except Exception as e:
        return None, src, f"probe failed: {str(e)[:200]}"
    cbs = d["callbacks"]
    log = [f"callbacks: {cbs}", f"right-hand-side calls: {d['ncalls']}"]
    if len(cbs) < 2 or float(cbs[1]["xold"]) != x0 or abs(float(cbs[1]["x"]) - (x0 + h)) > 1e-12 * (abs(x0) + abs(h)):
        log.append("the first trial step was not accepted natively")
        return None, src, "\n".join(log)
    ynew = [float(v) for v in cbs[1]["y"]]
    for i in range(n):
        ye = h * sum(float(err_form[j]) * ks[j][i] for j in range(min(len(err_form), len(ks))))
        rti, ati = (rt[0], at[0]) if len(rt) == 1 else (rt[i], at[i])
        bound = math.sqrt(n) * (ati + rti * max(abs(y0[i]), abs(ynew[i])))
        log.append(f"component {i}: |error estimate| = {abs(ye)!r}, sqrt(n)(atol + rtol max(|y|,|y_new|)) = {bound!r}, y_new = {ynew[i]!r}")
        if abs(ye) > bound * (1 + 1e-6):
            log.append("accepted natively although the error estimate exceeds the bound")
            return True, src, "\n".join(log)
    return None, src, "\n".join(log)


def lookup_replay(n_seg, backward, failed):
    """Native confirmation for the segment-lookup facts (C20 sol clause): the real ContinuousOutput built through the
    verif-hooks forwarder, strict vs extrapolating lookup, on the solver model's segments and on a boundary battery."""
    import math
    d = -1.0 if backward else 1.0
    cands = []
    for f in failed[:6]:
        m = f[2] if len(f) > 2 and isinstance(f[2], dict) else {}
        try:
            x0 = float(Fraction(m["x0"])) if "x0" in m else 0.0
            hs = [float(Fraction(m[f"h{k}"])) for k in range(n_seg)]
            if abs(x0) <= 1e7 and all(abs(h) <= 1e7 for h in hs):   # (model excerpts are truncated strings: ignore garbage)
                cands.append((x0, hs, [float(Fraction(m["t"]))] if "t" in m else []))
        except Exception:
            pass
    cands += [(0.0, [d * 0.5, d * 0.25, d * 0.125][:n_seg], []), (3.0, [d * 1e-3, d * 2e-3, d * 1e-3][:n_seg], []), (-7.25, [d * 1.5, d * 0.75, d * 3.0][:n_seg], [])]
    log = []
    n = 0
    for x0, hs, ts in cands:
        xs = [x0]
        for h in hs:
            xs.append(xs[-1] + h)
        tt = list(ts)
        for i, xb in enumerate(xs):
            for off in (0.0, 1e-12, -1e-12, 0.999e-12, -0.999e-12, 1.001e-12, -1.001e-12, 3e-12, -3e-12):
                tt.append(xb + off)
            tt += [math.nextafter(xb, math.inf), math.nextafter(xb, -math.inf)]
        for a, b in zip(xs, xs[1:]):
            tt += [a + 0.5 * (b - a), a + 0.25 * (b - a), a + 0.9 * (b - a)]
        lo, hi = min(xs), max(xs)
        tt += [lo - 1.0, hi + 1.0, lo - 1e-9, hi + 1e-9]
        try:
            r = probe(["lookup", repr(x0), ",".join(repr(h) for h in hs), ",".join(repr(t) for t in tt)], timeout=20)
        except Exception as e:
            log.append(f"probe failed: {str(e)[:150]}")
            continue
        nx = [float(v) for v in r["xs"]]
        for t, (st, ex) in zip(tt, r["results"]):
            n += 1
            bad = None
            if ex is None:
                bad = "the extrapolating lookup returns nothing although segments exist"
            elif st is not None and st != ex:
                bad = f"inside the covered span the extrapolating lookup uses segment {ex}, Solution::sol uses segment {st}"
            elif st is None and lo <= t <= hi:
                bad = "the strict lookup fails for a time inside the covered span"
            elif ex is not None and lo <= t <= hi:
                a, b = nx[ex], nx[ex + 1]
                if not (min(a, b) - 2.1e-12 <= t <= max(a, b) + 2.1e-12):
                    bad = f"for t inside the covered span the extrapolating lookup evaluates segment {ex} = [{a!r},{b!r}] which does not contain it"
            if bad:
                src = f"probe lookup {x0!r} {','.join(repr(h) for h in hs)} {t!r}   (real ContinuousOutput via verif-hooks; strict vs extrapolating lookup)"
                log.append(f"native violation at t={t!r}: {bad}")
                log.append(f"after {n} native lookups")
                return True, src, "\n".join(log)
    log.append(f"{n} native lookups: no native violation")
    return None, "probe lookup battery (rsym/replay.py lookup_replay)", "\n".join(log)


def radau_mass_replay():
    """Native: Radau on M y' = A y (non-symmetric M, Full mass storage) against Radau on y' = M^-1 A y."""
    try:
        d = probe(["radaumass"], timeout=60)
    except Exception as e:
        return None, "probe radaumass", f"probe failed: {str(e)[:200]}"
    a, b = d["runs"]
    ya, yb = [float(v) for v in a["y"]], [float(v) for v in b["y"]]
    log = [f"M y' = A y: {a}", f"y' = M^-1 A y: {b}"]
    if len(ya) != len(yb) or any(abs(p - q) > 1e-6 for p, q in zip(ya, yb)):
        log.append("the two formulations of the same problem disagree far beyond the tolerance (rtol 1e-9)")
        return True, "probe radaumass   (real RADAU, M = [[2,1],[0,1]], A = [[-1,.5],[.25,-2]], y0 = (1,-.5), [0,1])", "\n".join(log)
    return None, "probe radaumass", "\n".join(log)


def optindep_replay():
    """Native: solve_ivp with the default step budget on runs of 250 001 accepted steps, with and without dense_output / t_eval:
    status, accepted steps and the final sample must not depend on the output options."""
    try:
        d = probe(["optindep"], timeout=120)
    except Exception as e:
        return None, "probe optindep", f"probe failed: {str(e)[:200]}"
    by = {}
    for r in d:
        by.setdefault(r["method"], []).append(r)
    for m, rows in by.items():
        ref = rows[0]
        for r in rows[1:]:
            if any(r[k] != ref[k] for k in ("status", "naccpt", "last_t", "last_y")):
                return True, "probe optindep   (solve_ivp, y' = -y on [0,1], 250001 steps, default max_steps)", f"{m}: {ref}\nvs {r}"
    return None, "probe optindep", json.dumps(d)[:600]


def head_replay(failed):
    kinds = " ".join(f[0] for f in failed)
    if "configured differently" in kinds or "builder" in kinds:
        r = optindep_replay()
        if r[0]:
            return r
    r1 = first_step_replay()
    if r1[0]:
        return r1
    return optindep_replay() if not ("configured differently" in kinds) else (None, "probe optindep / firststep", "no native violation")


def radau_replay(backward, failed):
    """Native confirmation for the Radau units: the real RADAU on scripted right-hand sides (constant -> every trial
    accepted; wild -> Newton failure / rejection) over a battery of (x0, xend, first_step, max_step) incl. first_step >=
    the interval and max_step larger than it; facts re-judged on the native trace (replay_script.judge)."""
    from . import replay_script as RS
    want = _bdf_kinds(failed) if failed else None
    spans = [(0.0, 1.0), (3.0, 3.75), (-1.0, 0.5), (0.0, 1e-9)]
    if backward:
        spans = [(b, a) for a, b in spans]
    log = []
    n = 0
    for (x0, xend) in spans:
        span = abs(xend - x0)
        for h0 in (span / 3, span, 2.5 * span, span / 1.0001, None):
            for ms in (None, 1e9, span / 2.5):
                if ms is not None and h0 is not None and ms < span and h0 > ms:
                    continue
                for pat in ("A", "AAA", "RA", "ARA"):
                    for fl in ("C", "CM", "CI", "CCM", "M", "I", "CX"):
                        cfg = (x0, xend, h0, ms, 100000, pat, fl)
                        try:
                            d = probe(["script", "RADAU", repr(x0), repr(xend), "none" if h0 is None else repr(h0), "none" if ms is None else repr(ms), 100000, pat, fl, 3, 1], timeout=20)
                        except Exception as e:
                            log.append(f"probe failed for {cfg}: {str(e)[:100]}")
                            continue
                        n += 1
                        bad = [b for b in RS.judge("RADAU", cfg, d) if want is None or b[0] in want]
                        if bad:
                            k, desc = bad[0]
                            log.append(f"native violation [{k}] {desc}")
                            log.append(f"after {n} native runs")
                            return True, f"probe script RADAU {x0!r} {xend!r} {h0!r} {ms!r} 100000 {pat} {fl} 3 1   (real RADAU, scripted right-hand side / callback; /verif/replay/src/main.rs)", "\n".join(log)
    # smooth right-hand side (y' = cos t + y/2): first steps reaching xend that FAIL THE ERROR TEST (the scripted wild values fail Newton instead)
    for (x0, xend) in ((3.0, 0.0), (1.0, -2.0)) if backward else ((0.0, 3.0), (-1.0, 2.0)):
        span = abs(xend - x0)
        for h0 in (span, 1.7 * span, span / 1.00005):
            for ms in (None, 1e9):
                for rtol in ("1e-6", "1e-9", "1e-3"):
                    for fl in ("C", "CM", "CI"):
                        cfg = (x0, xend, h0, ms, 100000, "A", fl)
                        try:
                            d = probe(["smoothrun", "RADAU", repr(x0), repr(xend), repr(h0), "none" if ms is None else repr(ms), rtol, fl], timeout=20)
                        except Exception as e:
                            log.append(f"probe failed for {cfg}: {str(e)[:100]}")
                            continue
                        n += 1
                        bad = [b for b in RS.judge("RADAU", cfg, d) if (want is None or b[0] in want) and not (b[0] == "protocol" and "expected" in b[1])]
                        if bad:
                            k, desc = bad[0]
                            log.append(f"native violation [{k}] {desc}")
                            log.append(f"after {n} native runs")
                            return True, f"probe smoothrun RADAU {x0!r} {xend!r} {h0!r} {ms!r} {rtol} {fl}   (real RADAU, y' = cos t + y/2)", "\n".join(log)
    log.append(f"{n} native RADAU runs: no native violation of kind {sorted(want) if want else 'any'}")
    return None, "native RADAU battery (rsym/replay.py radau_replay)", "\n".join(log)


def radau_stiff_replay(failed):
    """Native: the real RADAU on the stiff Van der Pol oscillator (mu = 1000, analytic Jacobian) at loose tolerances, where the
    Newton iteration runs into its failure branches: per accepted step the interpolant must span [xold, x] and reproduce y(x);
    nfev/njev must equal the calls made."""
    log = []
    kinds = _bdf_kinds(failed) if failed else {"times", "protocol", "counters"}
    for rt in ("1e-2", "1e-3"):
        try:
            d = probe(["stiffdense", "RADAU", rt, "3000"], timeout=120)
        except Exception as e:
            log.append(f"probe failed: {str(e)[:150]}")
            continue
        if d["bad"] and (kinds & {"protocol", "times", "status", "maxstep"}):
            b = d["bad"][0]
            log.append(f"rtol={rt}: accepted step {b['step']} from {b['xold']} to {b['x']}: interpolant spans [{b['lo']}, {b['hi']}], interpolant at x = {b['interp_at_x']} but y = {b['y']} ({len(d['bad'])}+ such steps of {d['steps']})")
            return True, f"probe stiffdense RADAU {rt} 3000   (real RADAU, Van der Pol mu=1000, y0=(2,0), [0,3000])", "\n".join(log)
        if "nfev" in d and (d["nfev"] != d["ode_calls"] or d["njev"] != d["jac_calls"]) and "counters" in kinds:
            log.append(f"rtol={rt}: nfev={d['nfev']} njev={d['njev']} but {d['ode_calls']} right-hand-side and {d['jac_calls']} Jacobian calls were made")
            return True, f"probe stiffdense RADAU {rt} 3000", "\n".join(log)
        log.append(f"rtol={rt}: {d['steps']} steps, no inconsistent interpolant, counters consistent")
    return None, "probe stiffdense RADAU", "\n".join(log)


def bdf_span_replay(backward):
    """Native: real BDF runs ending at 0, at ordinary and at awkward end points: every callback's x must be bit-for-bit the
    end of its interpolant's span (x_start + h)."""
    import struct
    n = 0
    ends = [0.0, 1.0, 3.75, 1e-9]
    for xe in ends:
        for k in range(60):
            a = xe + (1.0 + 0.051 * k) * (1.0 if backward else -1.0)
            x0, xend = a, xe
            try:
                d = probe(["bdf", repr(x0), repr(xend), "none", "none", 100000, "C", 4, "1e-3", 0], timeout=20)
            except Exception:
                continue
            n += 1
            cbs = d.get("callbacks", [])
            for k2, bd in enumerate(d.get("bounds", [])):
                if k2 + 1 < len(cbs):
                    x = float(cbs[k2 + 1][1])
                    end = float(bd[0]) if backward else float(bd[1])     # bounds() is (min, max)
                    if struct.pack("d", end) != struct.pack("d", x):
                        return True, f"probe bdf {x0!r} {xend!r} none none 100000 C 4 1e-3 0   (real BDF, y' = cos t + y/2)", f"callback {k2 + 1}: reported x = {x!r} but its interpolant's span ends at {end!r}\nafter {n} native runs"
    return None, "native BDF span battery", f"{n} native BDF runs: every reported x is the end of its interpolant's span"


def modinit_replay(method="RADAU"):
    """Native: the initial callback writes a new state and returns ModifiedSolution; the rest of the run must be bit-for-bit
    the run started from the written state (callback times and states), with one more evaluation."""
    log = []
    for h0, rtol in (("1e-3", "1e-6"), ("1e-2", "1e-4"), ("0.05", "1e-5"), ("1e-4", "1e-8")):
        try:
            d = probe(["modinit", method, h0, rtol], timeout=60)
        except Exception as e:
            log.append(f"probe failed: {str(e)[:150]}")
            continue
        a, b = d["runs"]
        if a["x"] != b["x"] or a["y"] != b["y"]:
            k = next((i for i, (p, q) in enumerate(zip(a["x"], b["x"])) if p != q), min(len(a["x"]), len(b["x"])))
            log.append(f"first_step={h0} rtol={rtol}: after the initial callback wrote 0.25 the run differs from the run started at 0.25 from callback {k} on: x = {a['x'][k:k + 2]} vs {b['x'][k:k + 2]}")
            return True, f"probe modinit {method} {h0} {rtol}   (real {method}, y' = cos t + y/2 on [0, 0.5])", "\n".join(log)
        if a["ode_calls"] != b["ode_calls"] + 1:
            log.append(f"first_step={h0} rtol={rtol}: {a['ode_calls']} evaluations vs {b['ode_calls']} (expected exactly one more)")
            return True, f"probe modinit {method} {h0} {rtol}", "\n".join(log)
        log.append(f"first_step={h0} rtol={rtol}: identical ({len(a['x'])} callbacks)")
    return None, f"probe modinit {method}", "\n".join(log)


def radau_nan_replay(method="RADAU"):
    """Native: RADAU with a right-hand side that turns NaN after a few accepted steps must return (no hang) with a failure
    status and must not hand out a non-finite state."""
    log = []
    for nan_at in (40, 80, 200):
        try:
            d = probe(["radaunan", nan_at, method], timeout=30)
        except subprocess.TimeoutExpired:
            return True, f"probe radaunan {nan_at}   (real RADAU, y' = cos t + y/2, NaN from evaluation {nan_at} on)", f"no return within 30 s: the solver hangs once the right-hand side returns NaN"
        except Exception as e:
            log.append(f"probe failed: {str(e)[:150]}")
            continue
        if d.get("hang"):
            return True, f"probe radaunan {nan_at}   (solve_ivp, Method::RADAU, y' = cos t + y/2, NaN from evaluation {nan_at} on, default step budget)", f"no return after {d.get('calls')} right-hand-side evaluations: the step size stops shrinking once the error norm is NaN"
        if d.get("nonfinite_state") and d.get("status") == "Success":
            return True, f"probe radaunan {nan_at}", f"Success with a non-finite state: {d}"
        log.append(f"NaN from evaluation {nan_at}: status {d.get('status')}, {d.get('steps')} steps")
    return None, "probe radaunan", "\n".join(log)


def dup_hinit_replay():
    """Native: solve_ivp without first_step on y' = -2y + sin t, one copy vs 2 / 4 copies: first accepted step."""
    try:
        d = probe(["duphinit"], timeout=60)
    except Exception as e:
        return None, "probe duphinit", f"probe failed: {str(e)[:200]}"
    for m, rows in d.items():
        if len({r["t1"] for r in rows}) > 1:
            return True, "probe duphinit   (solve_ivp, y_i' = -2 y_i + sin t, 1 / 2 / 4 identical copies, no first_step)", f"{m}: first accepted step per copy count: " + ", ".join(f"n={r['n']}: {r['t1']}" for r in rows)
    return None, "probe duphinit", json.dumps(d)[:400]
