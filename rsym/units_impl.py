"""R units for the implicit methods' loop-free kernels (C02 Radau constants, C06 Radau/BDF dense
identities and BDF history rescaling). Constants and code slices are read from the source on
every run; identities are discharged by z3 over reals."""
import time
from fractions import Fraction

import sympy as sp
import z3

from . import domains as D
from . import model as M
from . import tableau as TB
from .interp import Interp, RVec, RStruct, REnum, Unsupported, Env, explore, PathEnd
from .units_rk import _result


class GenericExact(D.Exact):
    """Exact domain in *generic position*: an equality between non-constant expressions is false
    (it holds only on a measure-zero set of the symbolic inputs). Used for code whose equality
    tests are shortcuts (`factor == 1.0 => return`, `coeff == 0.0 => continue`)."""

    def concrete_bool(self, c):
        r = super().concrete_bool(c)
        if r is None and isinstance(c, sp.Eq) and c.free_symbols:
            return False
        if r is None and isinstance(c, sp.Ne) and c.free_symbols:
            return True
        return r


def _interp(method, extra_hooks=None, generic=False):
    dom = GenericExact() if generic else D.Exact()
    it = Interp(dom, M.method_items(method), extra_hooks or {})
    return it, dom


def _consts(it, names):
    out = {}
    for n in names:
        try:
            out[n] = it.const(n)
        except KeyError:
            raise Unsupported(f"constant {n} not found in the source")
    return out


def _ground(q, expr, tol, label, failed, desc):
    ok, _ = q.unsat([z3.Or(TB.q2z(expr) > TB.q2z(tol), TB.q2z(expr) < -TB.q2z(tol))], label, False,
                    sample={"obligation": label, "residual": f"{float(expr):.3e}", "tolerance": f"{float(tol):.1e}"})
    if ok is False:
        failed.append(f"{desc} (residual {float(expr):.3e})")


def c02_radau_constants(tier="quick", seed=0):
    t0 = time.time()
    it, dom = _interp("RADAU")
    c = _consts(it, ["C1", "C2", "C1M1", "C2M1", "C1MC2", "DD1", "DD2", "DD3", "U1", "ALPH", "BETA", "T00", "T01", "T02", "T10", "T11",
                     "T12", "T20", "TI00", "TI01", "TI02", "TI10", "TI11", "TI12", "TI20", "TI21", "TI22"])
    q = TB.Q()
    failed = []
    tol = sp.Rational(1, 10 ** 13)
    one = sp.Integer(1)
    # derived constants
    _ground(q, c["C1M1"] - (c["C1"] - 1), tol, "C1M1 = C1 - 1", failed, "Radau: C1M1 is not C1 - 1")
    _ground(q, c["C2M1"] - (c["C2"] - 1), tol, "C2M1 = C2 - 1", failed, "Radau: C2M1 is not C2 - 1")
    _ground(q, c["C1MC2"] - (c["C1"] - c["C2"]), tol, "C1MC2 = C1 - C2", failed, "Radau: C1MC2 is not C1 - C2")
    # nodes: c1, c2, 1 are the Radau-right points: the collocation quadrature is exact to degree 4
    cs = [c["C1"], c["C2"], one]
    V = sp.Matrix([[ci ** j for j in range(3)] for ci in cs])
    Cm = sp.Matrix([[ci ** (j + 1) / (j + 1) for j in range(3)] for ci in cs])
    A = Cm * V.inv()
    b = A.row(2)
    for k in range(5):
        _ground(q, sum(b[i] * cs[i] ** k for i in range(3)) - sp.Rational(1, k + 1), tol * 10, f"quadrature order: sum b_i c_i^{k} = 1/{k + 1}",
                failed, f"Radau: the nodes C1, C2, 1 are not the Radau IIA nodes (quadrature condition k={k})")
    T = sp.Matrix([[c["T00"], c["T01"], c["T02"]], [c["T10"], c["T11"], c["T12"]], [c["T20"], one, 0]])
    TI = sp.Matrix([[c["TI00"], c["TI01"], c["TI02"]], [c["TI10"], c["TI11"], c["TI12"]], [c["TI20"], c["TI21"], c["TI22"]]])
    P = T * TI
    for i in range(3):
        for j in range(3):
            _ground(q, P[i, j] - (1 if i == j else 0), tol * 10, f"(T*TI)[{i},{j}]", failed, f"Radau: T*TI is not the identity at ({i},{j})")
    Lam = TI * A.inv() * T
    want = sp.Matrix([[c["U1"], 0, 0], [0, c["ALPH"], -c["BETA"]], [0, c["BETA"], c["ALPH"]]])
    for i in range(3):
        for j in range(3):
            _ground(q, Lam[i, j] - want[i, j], tol * 1000, f"(TI*inv(A)*T)[{i},{j}]", failed,
                    f"Radau: TI*A^-1*T is not diag(U1, [[ALPH,-BETA],[BETA,ALPH]]) at ({i},{j}) (A rebuilt from the nodes by collocation)")
    # stability function = (2,3) Pade approximant of exp: polynomial identity in z, decided with z quantified
    z = sp.Symbol("z", real=True)
    I3 = sp.eye(3)
    ones = sp.Matrix([1, 1, 1])
    num = (I3 - z * A + z * ones * b).det()
    den = (I3 - z * A).det()
    pn = 1 + sp.Rational(2, 5) * z + sp.Rational(1, 20) * z ** 2
    pd = 1 - sp.Rational(3, 5) * z + sp.Rational(3, 20) * z ** 2 - sp.Rational(1, 60) * z ** 3
    diff = sp.Poly(sp.expand(num * pd - pn * den), z)
    zz = z3.Real("z")
    d = TB.to_z3(diff.as_expr(), {z: zz})
    ok, _ = q.unsat([zz >= -10, zz <= 10, z3.Or(d > TB.q2z(sp.Rational(1, 10 ** 9)), d < -TB.q2z(sp.Rational(1, 10 ** 9)))],
                    "R(z) = Pade(2,3)", True, sample={"forall": "z in [-10,10]", "identity": "P(z) Q_ref(z) = P_ref(z) Q(z)"})
    if ok is False:
        failed.append("Radau: the stability function of the collocation matrix is not the (2,3) Pade approximant")
    # error-estimate weights as the code applies them (f0 + (DD1 z1 + DD2 z2 + DD3 z3)/h before the linear solve):
    # the embedded formula is of order 3, i.e. the combination vanishes on y = t^k, k = 1,2,3 (z_i = c_i^k, f0 = [k == 1])
    for k in (1, 2, 3):
        lhs = (1 if k == 1 else 0) + sum(dd * ci ** k for dd, ci in zip((c["DD1"], c["DD2"], c["DD3"]), cs))
        _ground(q, lhs, tol * 100, f"estimator weights vanish on t^{k}", failed,
                f"Radau: the error-estimate weights DD1..3 do not vanish on the polynomial solution t^{k}")
    rep = (None, "", "")
    return _result("c02_radau_constants", q, t0, failed,
                   {"functions": ["radau.rs module constants"], "bounds": "27 constants; exact rationals of their doubles; tolerance 1e-13..1e-10",
                    "trusted_base": ["collocation construction of the Radau IIA matrix from its nodes"]},
                   replayed=True if failed else None, replay_src="constants are compile-time data: the violated identity is evaluated on the values the binary uses (same doubles)",
                   replay_log="; ".join(failed))




def _find_loops_assigning(node, target, out):
    """for-loops (AST nodes) whose body index-assigns into `target`."""
    if isinstance(node, tuple):
        if node and node[0] == "for":
            body = node[4]
            if _assigns(body, target):
                out.append(node)
                return
        for ch in node:
            _find_loops_assigning(ch, target, out)
    elif isinstance(node, list):
        for ch in node:
            _find_loops_assigning(ch, target, out)


def _assigns(node, target):
    if isinstance(node, tuple):
        if node and node[0] == "assign" and node[2][0] == "index" and node[2][1][0] == "path" and node[2][1][1] == [target]:
            return True
        return any(_assigns(ch, target) for ch in node)
    if isinstance(node, list):
        return any(_assigns(ch, target) for ch in node)
    return False


def c06_radau_dense(tier="quick", seed=0):
    """Radau: the dense-output block of the accepted step (sliced out of solve() by its writes to
    `cont`) composed with RADAU::interpolate reproduces y_new, y_old and the stage values."""
    t0 = time.time()
    it, dom = _interp("RADAU")
    solve = it.fns["RADAU::solve"]
    loops = []
    _find_loops_assigning(solve[3], "cont", loops)
    # the dense block is the loop that also updates y from z3
    blk = [l for l in loops if _assigns(l[4], "y")]
    if len(blk) != 1:
        raise Unsupported(f"Radau dense-output block not found ({len(blk)} candidates)")
    yo, a1, a2, a3, h, xo = [sp.Symbol(n, real=True) for n in ("yold", "z1", "z2", "z3", "h", "xold")]
    env = Env()
    env.declare("n", 1)
    env.declare("y", RVec([yo]))
    env.declare("z1", RVec([a1]))
    env.declare("z2", RVec([a2]))
    env.declare("z3", RVec([a3]))
    env.declare("cont", RVec([sp.Integer(0)] * 4))
    it.expr(blk[0], env)
    ynew = env.get("y").items()[0]
    cont = env.get("cont")
    q = TB.Q()
    failed = []
    c1, c2 = it.const("C1"), it.const("C2")
    symmap = {}

    def at(s_theta, target, desc):
        yi = RVec([sp.Integer(0)])
        it.call_fn("RADAU::interpolate", [xo + s_theta * h, yi, cont, xo, h])
        val = yi.items()[0]
        dd = sp.expand(val - target)
        # compare coefficientwise (constants are rounded doubles)
        for sym in (yo, a1, a2, a3):
            cf = dd.coeff(sym, 1)
            if cf.free_symbols:
                failed.append(f"Radau dense output: {desc}: coefficient of {sym} depends on {cf.free_symbols}")
                continue
            _ground(q, cf, sp.Rational(1, 10 ** 13), f"{desc}: coefficient of {sym}", failed, f"Radau dense output: {desc}")

    ok, _ = q.unsat([TB.to_z3(ynew, symmap) != TB.to_z3(yo + a3, symmap)], "y_new = y_old + z3", True)
    if ok is False:
        failed.append("Radau: the new state is not y + z3")
    at(sp.Integer(1), yo + a3, "interp(x_new) = y_new")
    at(sp.Integer(0), yo, "interp(x_old) = y_old")
    at(c1, yo + a1, "interp(x_old + C1 h) = y_old + z1")
    at(c2, yo + a2, "interp(x_old + C2 h) = y_old + z2")
    return _result("c06_radau_dense", q, t0, failed,
                   {"functions": ["RADAU::solve dense block (AST slice by its writes to cont)", "RADAU::interpolate"], "bounds": "n=1, all y,z,h; exact real arithmetic",
                    "trusted_base": ["the four interpolation conditions characterise the cubic collocation polynomial (stage order 3)"]},
                   replayed=True if failed else None, replay_src="(identity over compile-time constants and a loop-free block)", replay_log="; ".join(failed))


def c06_bdf_rescaling(tier="quick", seed=0):
    """BDF: change_d / compute_r / matmul (interpreted from the source) preserve the interpolating
    polynomial when the step is rescaled by `factor`, for orders 1..5 and all d, factor, x."""
    t0 = time.time()
    it, dom = _interp("BDF", generic=True)
    q = TB.Q()
    failed = []
    x, h, fac, xn = [sp.Symbol(n, real=True) for n in ("x", "h", "factor", "xnew")]
    block = it.const("BDF_COEFFS_PER_STATE") if "BDF_COEFFS_PER_STATE" in it.const_nodes else 7
    maxo = it.const("MAX_ORDER") if "MAX_ORDER" in it.const_nodes else 5
    block, maxo = int(block), int(maxo)

    def interp(d_list, order, xold, hh):
        cont = [sp.Integer(0)] * block
        cont[0] = d_list[0]
        for k in range(maxo):
            cont[1 + k] = d_list[k + 1] if k + 1 <= order else sp.Integer(0)
        cont[block - 1] = sp.Integer(order)
        yi = RVec([sp.Integer(0)])
        it.call_fn("BDF::interpolate", [x, yi, RVec(cont), xold, hh])
        return yi.items()[0]

    for order in range(1, maxo + 1):
        ds = [sp.Symbol(f"d{k}", real=True) for k in range(maxo + 3)]
        d = RVec([RVec([ds[k]]) for k in range(maxo + 3)])
        scratch = RVec([RVec([sp.Integer(0)]) for _ in range(maxo + 1)])
        p = interp(ds, order, xn - h, h)
        try:
            it.call_fn("change_d", [d, order, fac, scratch])
        except PathEnd:
            raise Unsupported("change_d forked unexpectedly")
        d2 = [r.items()[0] for r in d.items()]
        qq = interp(d2, order, xn - fac * h, fac * h)
        diff = sp.expand(sp.together(p - qq) * (h * fac) ** order)
        changed = any(sp.expand(a - b) != 0 for a, b in zip(d2, ds))
        if not changed:
            failed.append(f"BDF: change_d left the difference array untouched for a generic factor (order {order})")
        ok, _ = q.unsat([TB.to_z3(sp.numer(sp.together(p - qq)), {}) != 0, z3.Real("h") != 0, z3.Real("factor") != 0], f"order {order}", True,
                        sample={"order": order, "forall": "d_0..d_order, factor, h, x", "identity": "interp(change_d(d)) on spacing factor*h == interp(d) on spacing h"})
        if ok is False or sp.simplify(p - qq) != 0:
            failed.append(f"BDF: rescaling the difference array by `factor` changes the interpolating polynomial (order {order})")
    return _result("c06_bdf_rescaling", q, t0, failed,
                   {"functions": ["bdf.rs change_d, compute_r, matmul", "BDF::interpolate"], "bounds": f"orders 1..{maxo}; n=1; factor, h, x, d symbolic; exact real arithmetic",
                    "trusted_base": ["Newton backward-difference form of the interpolating polynomial"]},
                   replayed=True if failed else None, replay_src="(polynomial identity of loop-free integer-parameterised code)", replay_log="; ".join(failed))


# ============================================================================== C15: Radau's mass-matrix products
class SymMatrix:
    """n x n matrix of exact-domain entries for the AST slices below."""

    def __init__(self, name, n, zero=False):
        self.n = n
        self.e = {(i, j): (sp.Integer(0) if zero else sp.Symbol(f"{name}{i}{j}", real=True)) for i in range(n) for j in range(n)}


def _reads_matrix(node, name):
    if isinstance(node, tuple):
        if node and node[0] == "index" and isinstance(node[1], tuple) and node[1][0] == "path" and node[1][1] == [name]:
            return True
        return any(_reads_matrix(ch, name) for ch in node)
    if isinstance(node, list):
        return any(_reads_matrix(ch, name) for ch in node)
    return False


def _outer_loops_reading(node, name, out):
    if isinstance(node, tuple):
        if node and node[0] == "for" and _reads_matrix(node[4], name):
            out.append(node)
            return
        for ch in node:
            _outer_loops_reading(ch, name, out)
    elif isinstance(node, list):
        for ch in node:
            _outer_loops_reading(ch, name, out)


def c15_radau_mass_products(tier="quick", seed=0):
    """Every place where RADAU::solve reads the mass matrix (sliced out of the source by its reads of
    `mass[..]`) uses it as M, not M^T, and at the right entry: E1 = fac1*M - J, E2 = (alphn*M - J) + i betan*M
    entrywise; the Newton right-hand side subtracts (M f_k)_i; the error estimate forms (M f1)_i."""
    t0 = time.time()
    n = 2

    def h_index(it_, base, idx):
        if isinstance(base, SymMatrix):
            i, j = idx
            return base.e[(int(i), int(j))]
        return NotImplemented

    def h_index_set(it_, base, idx, v):
        if isinstance(base, SymMatrix):
            i, j = idx
            base.e[(int(i), int(j))] = v
            return None
        return NotImplemented

    it, dom = _interp("RADAU", {"index": h_index, "index_set": h_index_set})
    solve = it.fns["RADAU::solve"]
    loops = []
    _outer_loops_reading(solve[3], "mass", loops)
    q = TB.Q()
    failed = []
    seen = set()
    S = lambda nm: sp.Symbol(nm, real=True)
    vec = lambda nm: RVec([S(f"{nm}_{i}") for i in range(n)])
    for lp in loops:
        env = Env()
        Mx, Jx = SymMatrix("m", n), SymMatrix("j", n)
        E1, E2r, E2i = SymMatrix("e1", n, True), SymMatrix("e2r", n, True), SymMatrix("e2i", n, True)
        vals = {"n": n, "mass": Mx, "jac": Jx, "e1": E1, "e2r": E2r, "e2i": E2i, "fac1": S("fac1"), "alphn": S("alphn"), "betan": S("betan"), "h": S("h")}
        for nm in ("z1", "z2", "z3", "f0", "f1", "f2", "f3", "scal", "y"):
            vals[nm] = vec(nm)
        vals["cont"] = RVec([S(f"cont_{i}") for i in range(4 * n)])
        for k_, v in vals.items():
            env.declare(k_, v)
        before = {nm: list(vals[nm].items()) for nm in ("z1", "z2", "z3", "f0", "f1", "f2", "f3", "cont")}
        try:
            it.expr(lp, env)
        except Unsupported as e:
            raise Unsupported(f"Radau: a block reading `mass` could not be executed in isolation: {e}")
        m = lambda i, j: sp.Symbol(f"m{i}{j}", real=True)
        jj = lambda i, j: sp.Symbol(f"j{i}{j}", real=True)
        symmap = {}

        def same(a, b, label, desc):
            ok, _ = q.unsat([TB.to_z3(sp.expand(a - b), symmap) != 0], label, True, sample={"forall": "M, J, f, z, h-factors", "obligation": desc})
            if ok is False and desc not in failed:
                failed.append(desc)

        if _assigns(lp, "e1") or any(E1.e[k_] != 0 for k_ in E1.e):
            seen.add("assembly")
            for r in range(n):
                for c in range(n):
                    same(E1.e[(r, c)], m(r, c) * S("fac1") - jj(r, c), f"E1[{r},{c}]", "Radau: E1 is not (U1/h) M - J entry by entry")
                    same(E2r.e[(r, c)], m(r, c) * S("alphn") - jj(r, c), f"E2r[{r},{c}]", "Radau: Re E2 is not (ALPH/h) M - J entry by entry")
                    same(E2i.e[(r, c)], m(r, c) * S("betan"), f"E2i[{r},{c}]", "Radau: Im E2 is not (BETA/h) M entry by entry")
        elif vals["z1"].items() != before["z1"]:
            seen.add("newton")
            for i in range(n):
                s1 = sum(m(i, j) * before["f1"][j] for j in range(n))
                s2 = sum(m(i, j) * before["f2"][j] for j in range(n))
                s3 = sum(m(i, j) * before["f3"][j] for j in range(n))
                same(vals["z1"].items()[i], before["z1"][i] - s1 * S("fac1"), f"newton rhs z1[{i}]", "Radau: the Newton right-hand side does not subtract (U1/h) (M f1)_i")
                same(vals["z2"].items()[i], before["z2"][i] - s2 * S("alphn") + s3 * S("betan"), f"newton rhs z2[{i}]", "Radau: the Newton right-hand side (real part) is not z2 - (ALPH/h)(M f2)_i + (BETA/h)(M f3)_i")
                same(vals["z3"].items()[i], before["z3"][i] - s3 * S("alphn") - s2 * S("betan"), f"newton rhs z3[{i}]", "Radau: the Newton right-hand side (imaginary part) is not z3 - (ALPH/h)(M f3)_i - (BETA/h)(M f2)_i")
        elif vals["f2"].items() != before["f2"]:
            seen.add("error_estimate")
            for i in range(n):
                s = sum(m(i, j) * before["f1"][j] for j in range(n))
                same(vals["f2"].items()[i], s, f"error estimate f2[{i}]", "Radau: the error estimate does not form (M f1)_i")
                same(vals["cont"].items()[i], s + before["f0"][i], f"error estimate cont[{i}]", "Radau: the error estimate's right-hand side is not (M f1)_i + f0_i")
        else:
            raise Unsupported("Radau: a block reading `mass` is none of the three known uses (E assembly, Newton right-hand side, error estimate)")
    missing = {"assembly", "newton", "error_estimate"} - seen
    if missing:
        raise Unsupported(f"Radau: mass uses not found in the source: {sorted(missing)}")
    return _result("c15_radau_mass_products", q, t0, failed,
                   {"functions": ["RADAU::solve: the blocks reading mass[..] (AST slices): E1/E2 assembly, Newton right-hand side, error estimate"],
                    "bounds": f"n={n}; all M, J, f, z and step factors; exact real arithmetic; {len(loops)} blocks"},
                   **_mass_replay(failed))


def _mass_replay(failed):
    if not failed:
        return dict(replayed=None, replay_src="", replay_log="")
    from . import replay
    r = replay.radau_mass_replay()
    return dict(replayed=r[0], replay_src=r[1], replay_log="; ".join(failed) + "\n" + r[2])


# ============================================================================== C13: Radau's error norms are RMS norms
def _walk_assigns(node, target, out):
    if isinstance(node, tuple):
        if node and node[0] == "assign" and isinstance(node[2], tuple) and node[2][0] == "path" and node[2][1] == [target]:
            out.append(node)
        for ch in node:
            _walk_assigns(ch, target, out)
    elif isinstance(node, list):
        for ch in node:
            _walk_assigns(ch, target, out)


def _mentions(node, name):
    if isinstance(node, tuple):
        if len(node) >= 3 and node[0] == "mcall" and node[2] == name:
            return True
        return any(_mentions(ch, name) for ch in node)
    if isinstance(node, list):
        return any(_mentions(ch, name) for ch in node)
    return False


def c13_radau_rms(tier="quick", seed=0):
    """Every place where RADAU::solve turns a sum of squares into its error norm (main estimate and the refinement on
    first/rejected steps) normalises it as an RMS norm sqrt(sum/n): the norm of m identical copies equals the norm of one."""
    t0 = time.time()
    it, dom = _interp("RADAU")
    solve = it.fns["RADAU::solve"]
    nodes = []
    _walk_assigns(solve[3], "err", nodes)
    norms = [nd for nd in nodes if nd[1] == "=" and _mentions(nd[3], "sqrt")]
    if len(norms) < 2:
        raise Unsupported(f"Radau: expected the main and the refined error norm, found {len(norms)} sqrt-normalisations of `err`")
    q = TB.Q()
    failed = []
    E = sp.Symbol("sumsq", positive=True)
    for k, nd in enumerate(norms):
        for n in (1, 2, 4, 16):
            env = Env()
            env.declare("n", n)
            env.declare("err", E * n)     # n identical copies: the sum of squares is n times that of one copy
            it.expr(nd, env)
            got = env.get("err")
            symmap = {}
            ok, _ = q.unsat(list(symmap.get("_side", [])) + [TB.to_z3(sp.simplify(got ** 2 - E), symmap) != 0, TB.to_z3(E, symmap) > 0], f"norm {k + 1} with {n} copies", True,
                            sample={"forall": "sum of squares > 0", "obligation": "norm(n copies)^2 == norm(one copy)^2 == sumsq"})
            if ok is False:
                failed.append(f"Radau: error norm #{k + 1} (line {nd[-1]}) is not an RMS norm: {n} identical copies give {got} instead of sqrt(sumsq)")
    return _result("c13_radau_rms", q, t0, failed,
                   {"functions": ["RADAU::solve: the statements normalising `err` (AST slices)"], "bounds": f"{len(norms)} norms; copy counts 1, 2, 4, 16; exact arithmetic"},
                   replayed=True if failed else None, replay_src="(identity over loop-free source statements)", replay_log="; ".join(failed))


# ============================================================================== C04: NaN / inf error norms in Radau's step-size controller (bit-precise slice)
def _find_stmt_list_with_if(node, pred, out):
    """(statement list, index) of the `if` statement whose condition satisfies pred."""
    if isinstance(node, list):
        for i, st in enumerate(node):
            if isinstance(st, tuple):
                cand = st if (st and st[0] == "if") else (st[1] if len(st) > 1 and isinstance(st[1], tuple) and st[1] and st[1][0] == "if" else None)
                if cand is not None and pred(cand[1]):
                    out.append((node, i, cand))
        for st in node:
            _find_stmt_list_with_if(st, pred, out)
    elif isinstance(node, tuple):
        for ch in node:
            _find_stmt_list_with_if(ch, pred, out)


def c04_radau_controller_nan(tier="quick", seed=0):
    """The rejection branch of RADAU::solve (the three controller statements fac / quot / hnew and the else-arm of
    `if err <= 1.0`), sliced out of the source and executed BIT-PRECISELY (z3 Float64 terms, NaN and infinities
    included): with a NaN or +inf error norm the step is rejected and the next step size is finite, non-zero-signed
    and at most 0.95 |h| -- for every finite h and every controller parameter in its documented range."""
    from . import domains_fp as FP
    t0 = time.time()
    items = M.method_items("RADAU")
    q = TB.Q()
    failed = []
    cex = []
    samples = []
    n_q = 0
    for err_kind in ("nan", "inf"):
        for first in (True, False):
            for newt_iter in (1, 7):
                dom = FP.Bits()
                it = Interp(dom, items, {})
                solve = it.fns["RADAU::solve"]
                found = []
                _find_stmt_list_with_if(solve[3], lambda c: c[0] == "bin" and c[1] == "<=" and c[2][0] == "path" and c[2][1] == ["err"], found)
                if len(found) != 1:
                    raise Unsupported(f"Radau: accept test `if err <= 1.0` not found exactly once ({len(found)})")
                stmts, idx, ifn = found[0]
                pre = stmts[idx - 3: idx]
                core = [s_[1] if s_[0] == "expr" else s_ for s_ in pre]
                names = [c_[2][1][0] if c_[0] == "assign" and c_[2][0] == "path" else None for c_ in core]
                if names != ["fac", "quot", "hnew"]:
                    raise Unsupported(f"Radau: the statements before the accept test are not fac/quot/hnew ({names})")
                env = Env()
                h = dom.sym("h")
                err = dom.sym("err")
                z = z3
                lim = lambda v, lo, hi: z.And(z.fpGEQ(v, FP.fv(lo)), z.fpLEQ(v, FP.fv(hi)))
                dom.add(z.And(z.Not(z.fpIsNaN(h)), z.Not(z.fpIsInf(h)), z.fpGEQ(z.fpAbs(h), FP.fv(1e-290)), z.fpLEQ(z.fpAbs(h), FP.fv(1e290))))
                dom.add(z.fpIsNaN(err) if err_kind == "nan" else z.And(z.fpIsInf(err), z.fpGT(err, FP.fv(0.0))))
                vals = {"h": h, "err": err, "first": first, "newt_iter": newt_iter, "max_newton": 7, "reject": False, "last": True, "call_decomp": False,
                        "hhfac": dom.sym("hhfac"), "hnew": FP.fv(0.0), "quot": FP.fv(0.0), "fac": FP.fv(0.0),
                        "steps": RStruct("Steps", {"total": 1, "accepted": 0, "rejected": 0})}
                for nm, lo, hi in (("safety_factor", 0.5, 1.0), ("cfac", 0.5, 100.0), ("facr", 1e-3, 1.0), ("facl", 2.0, 1e3)):
                    v = dom.sym(nm)
                    dom.add(lim(v, lo, hi))
                    vals[nm] = v
                for k_, v in vals.items():
                    env.declare(k_, v)
                for s_ in pre:
                    it.stmt(s_, env)
                # the accept test itself must be false for a NaN / inf norm
                cond = it.expr(ifn[1], env)
                n_q += 1
                r = dom.holds(z.Not(cond)) if not isinstance(cond, bool) else (not cond)
                if r is not True:
                    failed.append(f"Radau: a step whose error norm is {err_kind.upper()} passes the accept test `err <= 1.0`")
                    continue
                it.block(ifn[3], env) if ifn[3][0] == "block" else it.expr(ifn[3], env)
                h2 = env.get("h")
                facts = {"the next step size is finite": z.And(z.Not(z.fpIsNaN(h2)), z.Not(z.fpIsInf(h2))),
                         "the next step size is at most 0.95 |h|": z.fpLEQ(z.fpAbs(h2), z.fpMul(FP.RNE, FP.fv(0.95), z.fpAbs(h))),
                         "the next step keeps its direction": z.Or(z.And(z.fpGT(h, FP.fv(0.0)), z.fpGT(h2, FP.fv(0.0))), z.And(z.fpLT(h, FP.fv(0.0)), z.fpLT(h2, FP.fv(0.0))))}
                for desc, f in facts.items():
                    n_q += 1
                    tq = time.time()
                    r = dom.holds(f)
                    q.solver_s += time.time() - tq
                    if r is False:
                        m = dom.model
                        msg = f"Radau: after a rejected step with a {err_kind.upper()} error norm (first={first}): {desc} -- violated"
                        if msg not in failed:
                            failed.append(msg)
                            cex.append(f"{msg}: h = {m.eval(h)}, next h = {m.eval(h2)}")
                    elif r is None:
                        q.unknown.append(f"{desc} ({err_kind}, first={first})")
                if len(samples) < 2:
                    samples.append({"err": err_kind, "first": first, "obligation": "rejected, next |h| <= 0.95|h|, finite, same direction"})
    q.n = n_q
    q.quantified = n_q
    q.samples = samples
    failed = list(dict.fromkeys(failed))
    return _result("c04_radau_controller_nan", q, t0, failed,
                   {"functions": ["RADAU::solve: fac/quot/hnew and the rejection arm of `if err <= 1.0` (AST slice, bit-precise)"],
                    "bounds": "err in {NaN, +inf}; h any finite binary64 with 1e-290 <= |h| <= 1e290; safety_factor in [0.5,1], cfac in [0.5,100], facr in [1e-3,1], facl in [2,1e3]; first in {true,false}; newt_iter in {1,7}; powf by contract"},
                   **_radau_nan_replay(failed, cex))


def _radau_nan_replay(failed, cex=()):
    if not failed:
        return dict(replayed=None, replay_src="", replay_log="")
    from . import replay
    r = replay.radau_nan_replay()
    return dict(replayed=r[0], replay_src=r[1], replay_log="\n".join(cex[:4]) + "\n" + r[2])


def c04_dop_controller_nan(method="DOP853"):
    """DOPRI5 / DOP853: the controller statements before `if err <= 1.0`, the rejection arm and the `h = hnew` that follows,
    sliced out of solve() and executed bit-precisely (z3 Float64): a NaN or +inf error norm is rejected and the next step is
    finite, keeps its direction and is <= 0.95 |h|."""

    def unit(tier="quick", seed=0):
        from . import domains_fp as FP
        t0 = time.time()
        items = M.method_items(method)
        q = TB.Q()
        failed, cex, samples = [], [], []
        n_q = 0
        z = z3
        for err_kind in ("nan", "inf"):
            for accepted_before in (0, 5):
                dom = FP.Bits()
                it = Interp(dom, items, {})
                solve = it.fns[f"{method}::solve"]
                found = []
                _find_stmt_list_with_if(solve[3], lambda c: c[0] == "bin" and c[1] == "<=" and c[2][0] == "path" and c[2][1] == ["err"], found)
                if len(found) != 1:
                    raise Unsupported(f"{method}: accept test `if err <= 1.0` not found exactly once ({len(found)})")
                stmts, idx, ifn = found[0]
                # the contiguous controller assignments right before the test
                k = idx
                while k > 0:
                    st = stmts[k - 1]
                    core = st[1] if st[0] == "expr" else st
                    if core[0] == "assign" and core[2][0] == "path" and core[2][1][0] in ("fac", "fac11", "hnew", "quot"):
                        k -= 1
                    else:
                        break
                pre = stmts[k: idx]
                if len(pre) < 2:
                    raise Unsupported(f"{method}: controller statements before the accept test not found")
                post = stmts[idx + 1: idx + 2]
                env = Env()
                h, err = dom.sym("h"), dom.sym("err")
                lim = lambda v, lo, hi: z.And(z.fpGEQ(v, FP.fv(lo)), z.fpLEQ(v, FP.fv(hi)))
                dom.add(z.And(z.Not(z.fpIsNaN(h)), z.Not(z.fpIsInf(h)), z.fpGEQ(z.fpAbs(h), FP.fv(1e-290)), z.fpLEQ(z.fpAbs(h), FP.fv(1e290))))
                dom.add(z.fpIsNaN(err) if err_kind == "nan" else z.And(z.fpIsInf(err), z.fpGT(err, FP.fv(0.0))))
                vals = {"h": h, "err": err, "reject": False, "last": True, "hnew": FP.fv(0.0), "fac": FP.fv(0.0), "fac11": FP.fv(0.0),
                        "steps": RStruct("Steps", {"total": 6, "accepted": accepted_before, "rejected": 0})}
                for nm, lo, hi in (("safety_factor", 0.5, 1.0), ("facold", 1e-4, 1e4), ("beta", 0.0, 0.1), ("expo1", 0.05, 0.34), ("facc1", 2.0, 1e3), ("facc2", 1e-3, 1.0)):
                    v = dom.sym(nm)
                    dom.add(lim(v, lo, hi))
                    vals[nm] = v
                for k_, v in vals.items():
                    env.declare(k_, v)
                for s_ in pre:
                    it.stmt(s_, env)
                cond = it.expr(ifn[1], env)
                n_q += 1
                r = dom.holds(z.Not(cond)) if not isinstance(cond, bool) else (not cond)
                if r is not True:
                    failed.append(f"{method}: a step whose error norm is {err_kind.upper()} passes the accept test `err <= 1.0`")
                    continue
                it.block(ifn[3], env) if ifn[3][0] == "block" else it.expr(ifn[3], env)
                for s_ in post:
                    core = s_[1] if s_[0] == "expr" else s_
                    if core[0] == "assign" and core[2][0] == "path" and core[2][1] == ["h"]:
                        it.stmt(s_, env)
                h2 = env.get("h")
                facts = {"the next step size is finite": z.And(z.Not(z.fpIsNaN(h2)), z.Not(z.fpIsInf(h2))),
                         "the next step size is at most 0.95 |h|": z.fpLEQ(z.fpAbs(h2), z.fpMul(FP.RNE, FP.fv(0.95), z.fpAbs(h))),
                         "the next step keeps its direction": z.Or(z.And(z.fpGT(h, FP.fv(0.0)), z.fpGT(h2, FP.fv(0.0))), z.And(z.fpLT(h, FP.fv(0.0)), z.fpLT(h2, FP.fv(0.0))))}
                for desc, f in facts.items():
                    n_q += 1
                    tq = time.time()
                    r = dom.holds(f)
                    q.solver_s += time.time() - tq
                    if r is False:
                        m = dom.model
                        msg = f"{method}: after a rejected step with a {err_kind.upper()} error norm: {desc} -- violated"
                        if msg not in failed:
                            failed.append(msg)
                            cex.append(f"{msg}: h = {m.eval(h)}, next h = {m.eval(h2)}")
                    elif r is None:
                        q.unknown.append(f"{desc} ({err_kind})")
                if len(samples) < 2:
                    samples.append({"err": err_kind, "obligation": "rejected, next |h| <= 0.95|h|, finite, same direction"})
        q.n = n_q
        q.quantified = n_q
        q.samples = samples
        rep = dict(replayed=None, replay_src="", replay_log="")
        if failed:
            from . import replay
            r = replay.radau_nan_replay(method)
            rep = dict(replayed=r[0], replay_src=r[1], replay_log="\n".join(cex[:4]) + "\n" + r[2])
        return _result(f"c04_controller_nan_{method.lower()}", q, t0, failed,
                       {"functions": [f"{method}::solve: controller statements, rejection arm of `if err <= 1.0`, `h = hnew` (AST slice, bit-precise)"],
                        "bounds": "err in {NaN, +inf}; h any finite binary64 with 1e-290 <= |h| <= 1e290; safety_factor in [0.5,1], facold in [1e-4,1e4], beta in [0,0.1], expo1 in [0.05,0.34], facc1 in [2,1e3], facc2 in [1e-3,1]; powf by contract"},
                       **rep)

    unit.__name__ = f"c04_controller_nan_{method.lower()}"
    return unit
