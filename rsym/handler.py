"""Symbolic execution of the default output handler (`DefaultSolOut::new` + `solout`, read from
/repo/src/solve/solout.rs) driven by an arbitrary protocol-conforming sequence of accepted steps.

Environment model (all part of the claim):
  * step boundaries x0, x1, .., xK, the requested times t_eval[i] and first_step are z3 reals
    (Round domain: the handler's own float operations carry a relative rounding error);
  * the step interpolant is "the value is the time" (interpolate(t) writes t), the state handed
    to the callback at x_k is x_k: so WHICH time a reported value was taken at is observable as a
    term identity;
  * event functions return fresh values at the step end points; inside Brent's iteration the
    stub returns exactly 0 at the first interior probe of the function being refined (Brent's
    convergence for arbitrary continuous g is outside every claim).
"""
import os
from fractions import Fraction

import z3

from . import domains as D
from . import model as M
from . import rustparse as rp
from .interp import (Interp, RVec, RStruct, REnum, ElemRef, SInt, Unsupported, PathEnd, RustPanic, SymEnum, NONE, some,
                     explore, Env, FnVal)
from .stepper import qv, zabs, zmax, IterPath, EPS

TOL = Fraction(1, 10 ** 12)


def items():
    return M.load_items("src/solve/solout.rs", "src/solve/event.rs", "src/dense.rs")


class Events:
    """`ode: &F` as seen by the handler."""

    def __init__(self, dom, configs):
        self.dom = dom
        self.configs = configs          # list of (direction name, terminal_count or None)
        self.calls = []                 # (x, [values], inside_brent)
        self.brent_for = None           # index of the function currently refined
        self.values = {}                # (step index, i) -> RV at step end points


class Interp1:
    """StepInterpolant of one step with the identity model."""

    def __init__(self, xold, h, k):
        self.xold, self.h, self.k = xold, h, k


def make_hooks(dom, ev, rec):
    def m_n_events(it, recv, arg_ns, env, node):
        if isinstance(recv, Events):
            return len(recv.configs)
        return NotImplemented

    def m_event_config(it, recv, arg_ns, env, node):
        if isinstance(recv, Events):
            i = it.expr(arg_ns[0], env)
            d, tc = recv.configs[i]
            return RStruct("EventConfig", {"direction": REnum(d), "terminal_count": NONE if tc is None else some(tc)})
        return NotImplemented

    def m_events(it, recv, arg_ns, env, node):
        if not isinstance(recv, Events):
            return NotImplemented
        x = it.expr(arg_ns[0], env)
        y = it.expr(arg_ns[1], env)
        out = it.expr(arg_ns[2], env)
        inside = rec["in_step_call"] and len([c for c in recv.calls if c[3] == rec["call_index"]]) >= 1
        vals = []
        for i in range(len(out)):
            if inside:
                # interior probe of Brent's iteration: exact root for the refined function at the first probe
                v = dom.const(0)
            else:
                # end-point value of event function i: one of a finite set of concrete values (all sign
                # patterns, an exact zero, a value below Brent's xtol, two magnitudes), chosen by forking
                v = dom.const(it.choose(rec["event_values"], f"g{rec['call_index']}_{i}"))
            out.set(i, v)
            vals.append(v)
        recv.calls.append((x, list(y.items()), vals, rec["call_index"], inside))
        return None

    def m_interpolate(it, recv, arg_ns, env, node):
        if isinstance(recv, Interp1):
            t = it.expr(arg_ns[0], env)
            yi = it.expr(arg_ns[1], env)
            for i in range(len(yi)):
                yi.set(i, t)
            rec["interp_at"].append((recv.k, t))
            return None
        return NotImplemented

    def m_to_segment(it, recv, arg_ns, env, node):
        if isinstance(recv, Interp1):
            return RStruct("DenseSegment", {"cont": RVec([dom.const(recv.k)]), "xold": recv.xold, "h": recv.h})
        return NotImplemented

    def m_sort_by(it, recv, arg_ns, env, node):
        """slice::sort_by: insertion sort with the real comparator closure (stable, same contract)."""
        if not isinstance(recv, RVec):
            return NotImplemented
        cmp = it.expr(arg_ns[0], env)
        a = recv.a if not hasattr(recv, "base") else None
        if a is None:
            raise Unsupported("sort_by on a slice view")
        for i in range(1, len(a)):
            j = i
            while j > 0:
                o = it.call_value(cmp, [a[j - 1], a[j]])
                if isinstance(o, REnum) and o.name == "Greater":
                    a[j - 1], a[j] = a[j], a[j - 1]
                    j -= 1
                else:
                    break
        return None

    def m_partial_cmp(it, recv, arg_ns, env, node):
        if not dom.is_float(recv):
            return NotImplemented
        other = it.expr(arg_ns[0], env)
        if isinstance(other, ElemRef):
            other = other.get()
        if it.truth(dom.cmp("<", recv, other), "partial_cmp <"):
            return some(REnum("Less"))
        if it.truth(dom.cmp(">", recv, other), "partial_cmp >"):
            return some(REnum("Greater"))
        return some(REnum("Equal"))

    return {
        "methods": {"n_events": m_n_events, "event_config": m_event_config, "events": m_events,
                    "interpolate": m_interpolate, "to_segment": m_to_segment, "sort_by": m_sort_by,
                    "partial_cmp": m_partial_cmp},
        "fns": {}, "globals": {}, "ctors": {},
    }


class HandlerRun(IterPath):
    def script(self):
        """Concrete scenario of this path for the native replay (numbers come from the solver model)."""
        return {"n_steps": self.n_steps, "backward": self.backward, "configs": [[d, tc] for d, tc in self.ev.configs],
                "dense": self.dense if isinstance(self.dense, bool) else None,
                "event_values": [[str(v.exact_const) for v in c[2]] for c in self.ev.calls if not c[4]],
                "n_teval": None if self.te is None else len(self.te), "has_first_step": self.h0 is not None,
                "calls_made": len(self.flags)}


EV_SIGNS = [Fraction(-1), Fraction(0), Fraction(1)]
EV_RICH = [Fraction(-3), Fraction(-1), Fraction(-1, 10 ** 13), Fraction(0), Fraction(1, 10 ** 13), Fraction(1), Fraction(3)]


def run_sequence(n_steps, t_eval_len, configs, backward=False, with_first_step=False, dense=None, max_paths=20000,
                 extra_assume=None, min_step=Fraction(4, 10 ** 12), teval_in_span=True, event_values=EV_SIGNS):
    """Enumerate all feasible paths of: new(); initial call; n_steps step calls (stopping at the
    first Interrupt). Returns HandlerRun objects with payload and events."""
    its = items()
    out = []

    def run(preset):
        dom = D.Round()
        rec = {"in_step_call": False, "call_index": 0, "interp_at": [], "event_values": event_values}
        ev = Events(dom, configs)
        hooks = make_hooks(dom, ev, rec)
        it = Interp(dom, its, hooks)
        it.preset = preset
        dirn = -1 if backward else 1
        xs = [dom.sym(f"x{k}") for k in range(n_steps + 1)]
        big = z3.RealVal(10) ** 6
        for k in range(n_steps + 1):
            dom.add(zabs(xs[k].t) <= big)
        for k in range(1, n_steps + 1):
            d = xs[k].t - xs[k - 1].t
            dom.add((d if not backward else -d) > qv(min_step))
            # accepted steps are above the resolution of x (the steppers guarantee it: C03/C04)
            dom.add((d if not backward else -d) >= qv(16 * EPS) * zmax(zabs(xs[k].t), zabs(xs[k - 1].t)))
        te = None
        if t_eval_len is not None:
            te = [dom.sym(f"te{i}") for i in range(t_eval_len)]
            for i in range(1, t_eval_len):
                d = te[i].t - te[i - 1].t
                dom.add((d if not backward else -d) >= 0)   # sorted in the direction of integration (duplicates allowed)
            if teval_in_span:
                for t in te:
                    dom.add((t.t - xs[0].t) * dirn >= 0)
                    dom.add((xs[n_steps].t - t.t) * dirn >= 0)
        h0 = None
        if with_first_step:
            h0 = dom.sym("first_step")
            dom.add(h0.t > 0)
        if extra_assume:
            extra_assume(dom, xs, te, h0)
        dense_flag = dense if dense is not None else it.truth(dom.fresh_bool("collect_dense"), "dense flag")
        so = it.call_fn("DefaultSolOut::new", [ev, NONE if te is None else some(RVec(te)), dense_flag,
                                               NONE if h0 is None else some(h0), xs[0], 1])
        flags = []
        outcome = "completed"
        rec["lens"] = []
        rec["xy_intact"] = []

        def call(k, xold, interp):
            y = RVec([xs[k]])
            xcell = RVec([xs[k]])
            f = it.call_fn("DefaultSolOut::solout", [so, xold, ElemRef(xcell, 0), y, interp])
            flags.append(f)
            rec["lens"].append([len(r) for r in so.f["t_events"].items()])
            rec["xy_intact"].append(xcell.get(0) is xs[k] and len(y) == 1 and y.get(0) is xs[k])
            return f

        try:
            rec["call_index"] = 0
            rec["in_step_call"] = False
            f = call(0, xs[0], NONE)
            if not (isinstance(f, REnum) and f.name == "Interrupt"):
                for k in range(1, n_steps + 1):
                    rec["call_index"] = k
                    rec["in_step_call"] = True
                    ip = Interp1(xs[k - 1], dom.arith("-", xs[k], xs[k - 1]), k)
                    f = call(k, xs[k - 1], some(ip))
                    if isinstance(f, REnum) and f.name == "Interrupt":
                        break
        except PathEnd as e:
            outcome = "end:" + e.kind
        except RustPanic as e:
            outcome = "panic:" + str(e)
        p = HandlerRun(dom=dom, it=it, so=so, xs=xs, te=te, h0=h0, flags=flags, ev=ev, rec=rec, outcome=outcome,
                       dense=dense_flag, backward=backward, dirn=dirn, n_steps=n_steps)
        return it.trail, p

    for dec, trail, p in explore(run, max_paths=max_paths):
        p.decisions = dec
        p.trail = trail
        p.dom.solver = None
        if p.outcome == "end:infeasible":
            continue
        out.append(p)
    return out
