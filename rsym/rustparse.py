"""A small parser for the subset of Rust used by /repo/src/methods/*.rs, src/ivp.rs,
src/solve/*.rs and src/matrix/*.rs. Produces a plain-tuple AST for rsym.interp.

Not a general Rust parser: types, generics, attributes, visibility and `use` items are skipped.
Anything it cannot parse raises ParseError -> the check reports "encoder could not follow the
source" (inconclusive), never a verdict.
"""
import re


class ParseError(Exception):
    pass


TOKEN_RE = re.compile(r"""
    (?P<ws>\s+|//[^\n]*|/\*.*?\*/)
  | (?P<num>\d[\d_]*(?:\.(?!\.)(?![A-Za-z_])[\d_]*)?(?:[eE][+-]?[\d_]+)?(?:_?(?:f64|f32|usize|isize|u8|u16|u32|u64|i8|i16|i32|i64))?)
  | (?P<life>'[A-Za-z_][A-Za-z0-9_]*(?!'))
  | (?P<chr>'(?:\\.|[^\\'])')
  | (?P<str>b?"(?:\\.|[^"\\])*")
  | (?P<id>[A-Za-z_][A-Za-z0-9_]*)
  | (?P<op>\.\.=|\.\.\.|::|->|=>|==|!=|<=|>=|&&|\|\||\+=|-=|\*=|/=|%=|\.\.|[-+*/%=<>!&|^~?@#$.,;:(){}\[\]])
""", re.X | re.S)


def tokenize(src):
    toks = []
    pos = 0
    line = 1
    n = len(src)
    while pos < n:
        m = TOKEN_RE.match(src, pos)
        if not m:
            raise ParseError(f"cannot tokenize at line {line}: {src[pos:pos+30]!r}")
        kind = m.lastgroup
        text = m.group()
        if kind != "ws":
            toks.append((kind, text, line))
        line += text.count("\n")
        pos = m.end()
    toks.append(("eof", "", line))
    return toks


BINOPS = {
    "||": 1, "&&": 2,
    "==": 3, "!=": 3, "<": 3, ">": 3, "<=": 3, ">=": 3,
    "|": 4, "^": 5, "&": 6,
    "+": 8, "-": 8, "*": 9, "/": 9, "%": 9,
}
ASSIGN_OPS = {"=", "+=", "-=", "*=", "/=", "%="}


class Parser:
    def __init__(self, src, fname="<src>"):
        self.toks = tokenize(src)
        self.i = 0
        self.fname = fname

    # ------------------------------------------------------------ helpers
    def peek(self, k=0):
        return self.toks[min(self.i + k, len(self.toks) - 1)]

    def at(self, text, k=0):
        return self.peek(k)[1] == text and self.peek(k)[0] in ("op", "id")

    def at_kind(self, kind, k=0):
        return self.peek(k)[0] == kind

    def next(self):
        t = self.toks[self.i]
        self.i += 1
        return t

    def expect(self, text):
        t = self.next()
        if t[1] != text:
            raise ParseError(f"{self.fname}:{t[2]}: expected {text!r}, found {t[1]!r}")
        return t

    def accept(self, text):
        if self.at(text):
            self.i += 1
            return True
        return False

    def err(self, msg):
        t = self.peek()
        raise ParseError(f"{self.fname}:{t[2]}: {msg} (at {t[1]!r})")

    # ------------------------------------------------------------ skipping
    def skip_balanced(self, open_, close):
        depth = 0
        while True:
            t = self.next()
            if t[0] == "eof":
                self.err("unbalanced " + open_)
            if t[1] == open_ and t[0] == "op":
                depth += 1
            elif t[1] == close and t[0] == "op":
                depth -= 1
                if depth == 0:
                    return

    def skip_attrs(self):
        """Skips attributes; returns True if one of them gates the item on the verification feature."""
        gated = False
        while self.at("#"):
            self.next()
            self.accept("!")
            start = self.i
            self.skip_balanced("[", "]")
            txt = " ".join(t[1] for t in self.toks[start:self.i])
            if "cfg" in txt and "verif-hooks" in txt:
                gated = True
        return gated

    def skip_type(self, stops):
        """Consume a type up to (not including) a depth-0 token in `stops`."""
        depth_angle = depth_par = depth_br = 0
        start = self.i
        while True:
            t = self.peek()
            if t[0] == "eof":
                self.err("eof in type")
            x = t[1]
            if depth_angle == depth_par == depth_br == 0 and x in stops and t[0] in ("op", "id"):
                return self.toks[start:self.i]
            if t[0] == "op":
                if x == "<":
                    depth_angle += 1
                elif x == ">":
                    depth_angle -= 1
                elif x == "->":
                    pass
                elif x == "(":
                    depth_par += 1
                elif x == ")":
                    if depth_par == 0:
                        return self.toks[start:self.i]
                    depth_par -= 1
                elif x == "[":
                    depth_br += 1
                elif x == "]":
                    if depth_br == 0:
                        return self.toks[start:self.i]
                    depth_br -= 1
            self.next()

    def skip_generics(self):
        if self.at("<"):
            depth = 0
            while True:
                t = self.next()
                if t[1] == "<" and t[0] == "op":
                    depth += 1
                elif t[1] == ">" and t[0] == "op":
                    depth -= 1
                    if depth == 0:
                        return
                elif t[0] == "eof":
                    self.err("eof in generics")

    # ------------------------------------------------------------ items
    def parse_file(self):
        items = []
        while not self.at_kind("eof"):
            it = self.parse_item()
            if it is not None:
                items.extend(it if isinstance(it, list) else [it])
        return items

    def parse_item(self):
        self.skip_attrs()
        while self.at("pub"):
            self.next()
            if self.at("("):
                self.skip_balanced("(", ")")
        t = self.peek()
        x = t[1]
        if x in ("use", "type", "extern") :
            while not self.accept(";"):
                self.next()
            return None
        if x == "mod":
            self.next(); self.next()
            if self.accept(";"):
                return None
            self.skip_balanced("{", "}")
            return None
        if x in ("struct", "enum", "trait", "union"):
            self.next()
            # skip header up to body or ;
            while not (self.at("{") or self.at(";") or self.at("(")):
                self.next()
            if self.at("("):
                self.skip_balanced("(", ")")
                while not self.accept(";"):
                    self.next()
                return None
            if self.accept(";"):
                return None
            if x == "trait":
                return self.parse_impl_body(trait=True)
            self.skip_balanced("{", "}")
            return None
        if x == "macro_rules":
            self.next(); self.expect("!"); self.next()
            self.skip_balanced("{", "}")
            return None
        if x == "const" or x == "static":
            return self.parse_const()
        if x == "fn" or (x in ("unsafe", "async", "const") and self.at("fn", 1)):
            return self.parse_fn()
        if x == "impl":
            self.next()
            self.skip_generics()
            owner = None
            depth = 0
            in_where = False
            while not (self.at("{") and depth == 0):
                t = self.next()
                if t[0] == "op" and t[1] == "<":
                    depth += 1
                elif t[0] == "op" and t[1] == ">":
                    depth -= 1
                elif t[0] == "id" and t[1] == "where" and depth == 0:
                    in_where = True
                elif t[0] == "id" and depth == 0 and not in_where and t[1] not in ("for", "dyn", "mut"):
                    owner = t[1]
            items = self.parse_impl_body()
            return [it + (owner,) if it[0] == "fn" else it for it in items]
        if x == "}":
            self.err("unexpected }")
        self.err("unsupported item")

    def parse_impl_body(self, trait=False):
        self.expect("{")
        items = []
        while not self.at("}"):
            self.skip_attrs()
            while self.at("pub"):
                self.next()
                if self.at("("):
                    self.skip_balanced("(", ")")
            if self.at("fn") or (self.peek()[1] in ("const", "unsafe", "async") and self.at("fn", 1)):
                f = self.parse_fn(allow_decl=True)
                if f:
                    items.append(f)
            elif self.at("const"):
                c = self.parse_const()
                if c:
                    items.append(c)
            elif self.at("type"):
                while not self.accept(";"):
                    self.next()
            else:
                self.err("unsupported impl item")
        self.expect("}")
        return items

    def parse_const(self):
        line = self.peek()[2]
        self.next()
        self.accept("mut")
        name = self.next()[1]
        self.expect(":")
        self.skip_type({"=", ";"})
        if self.accept(";"):
            return None
        self.expect("=")
        e = self.parse_expr()
        self.expect(";")
        return ("const", name, e, line)

    def parse_fn(self, allow_decl=False):
        line = self.peek()[2]
        while not self.at("fn"):
            self.next()
        self.next()
        name = self.next()[1]
        self.skip_generics()
        self.expect("(")
        params = []
        while not self.at(")"):
            self.skip_attrs()
            if self.at("&"):
                self.next()
                if self.at_kind("life"):
                    self.next()
                self.accept("mut")
            self.accept("mut")
            pat = self.parse_pattern()
            if self.accept(":"):
                self.skip_type({","})
            params.append(pat)
            if not self.accept(","):
                break
        self.expect(")")
        if self.accept("->"):
            self.skip_type({"{", "where", ";"})
        if self.at("where"):
            while not (self.at("{") or self.at(";")):
                self.next()
        if self.accept(";"):
            return None
        body = self.parse_block()
        return ("fn", name, params, body, line)

    # ------------------------------------------------------------ patterns
    def parse_pattern(self):
        t = self.peek()
        if self.accept("("):
            elems = []
            while not self.at(")"):
                elems.append(self.parse_pattern())
                if not self.accept(","):
                    break
            self.expect(")")
            return ("ptuple", elems)
        if self.accept("&"):
            self.accept("mut")
            return self.parse_pattern()
        if self.at("&&"):
            self.next()
            return self.parse_pattern()
        if self.accept("_"):
            return ("pwild",)
        if self.at("ref") or self.at("mut"):
            self.next()
            return self.parse_pattern()
        if t[0] == "num" or self.at("-"):
            e = self.parse_unary()
            return ("plit", e)
        if t[0] == "id":
            path = [self.next()[1]]
            while self.at("::"):
                self.next()
                path.append(self.next()[1])
            if self.accept("("):
                elems = []
                while not self.at(")"):
                    elems.append(self.parse_pattern())
                    if not self.accept(","):
                        break
                self.expect(")")
                return ("pctor", path, elems)
            if self.at("{") and (len(path) > 1 or path[0][0].isupper()):
                fields = []
                self.next()
                while not self.at("}"):
                    if self.accept(".."):
                        continue
                    fname = self.next()[1]
                    if self.accept(":"):
                        fields.append((fname, self.parse_pattern()))
                    else:
                        fields.append((fname, ("pbind", fname)))
                    self.accept(",")
                self.expect("}")
                return ("pstruct", path, fields)
            if len(path) == 1 and (path[0][0].islower() or path[0] == "_" or path[0].startswith("_")):
                return ("pbind", path[0])
            return ("ppath", path)
        self.err("unsupported pattern")

    # ------------------------------------------------------------ blocks / statements
    def parse_block(self):
        self.expect("{")
        stmts = []
        while not self.at("}"):
            s = self.parse_stmt()
            if s is not None:
                stmts.append(s)
        self.expect("}")
        return ("block", stmts)

    def parse_stmt(self):
        if self.skip_attrs():
            # statement compiled only with the verification hooks: not part of the library's behaviour
            self.parse_stmt()
            return None
        line = self.peek()[2]
        if self.accept(";"):
            return None
        if self.at("let"):
            self.next()
            pat = self.parse_pattern()
            if self.accept(":"):
                self.skip_type({"=", ";"})
            init = None
            if self.accept("="):
                init = self.parse_expr()
            els = None
            if self.at("else"):
                self.err("let-else unsupported")
            self.expect(";")
            return ("let", pat, init, line)
        if self.at("fn"):
            f = self.parse_fn()
            return ("localfn", f, line)
        if self.at("const") and not self.at("{", 1):
            c = self.parse_const()
            return ("localconst", c, line)
        if self.at("use"):
            while not self.accept(";"):
                self.next()
            return None
        if self.peek()[1] in ("for", "while", "loop", "if", "match") or (self.at_kind("life") and self.at(":", 1)):
            # block-like expression statement: it ends at its closing brace (Rust does not continue with `(..)` / `[..]`)
            e = self.parse_primary(False)
            if self.accept(";"):
                return ("expr", e, line, True)
            if self.at("}"):
                return ("expr", e, line, False)
            if self.at(".") or self.at("?"):
                self.err("method call on a block-like statement expression is not supported")
            return ("expr", e, line, True)
        e = self.parse_expr(stmt=True)
        if self.accept(";"):
            return ("expr", e, line, True)
        if self.at("}"):
            return ("expr", e, line, False)  # tail expression
        if e[0] in ("if", "match", "loop", "while", "for", "block", "iflet"):
            return ("expr", e, line, True)
        self.err("expected ; after expression")

    # ------------------------------------------------------------ expressions
    def parse_expr(self, stmt=False, nostruct=False):
        return self.parse_assign(nostruct)

    def parse_assign(self, nostruct):
        lhs = self.parse_range(nostruct)
        t = self.peek()
        if t[0] == "op" and t[1] in ASSIGN_OPS:
            op = self.next()[1]
            rhs = self.parse_assign(nostruct)
            return ("assign", op, lhs, rhs, t[2])
        return lhs

    def parse_range(self, nostruct):
        if self.at("..") or self.at("..="):
            op = self.next()[1]
            if self.at(")") or self.at("]") or self.at(",") or self.at(";") or self.at("{"):
                return ("range", None, None, op == "..=")
            hi = self.parse_bin(0, nostruct)
            return ("range", None, hi, op == "..=")
        lo = self.parse_bin(0, nostruct)
        if self.at("..") or self.at("..="):
            op = self.next()[1]
            if self.at(")") or self.at("]") or self.at(",") or self.at(";") or (self.at("{") and nostruct):
                return ("range", lo, None, op == "..=")
            hi = self.parse_bin(0, nostruct)
            return ("range", lo, hi, op == "..=")
        return lo

    def parse_bin(self, minprec, nostruct):
        lhs = self.parse_cast(nostruct)
        while True:
            t = self.peek()
            if t[0] != "op" or t[1] not in BINOPS:
                return lhs
            # `&&` / `||` are tokens; single & | are binary ops here too
            prec = BINOPS[t[1]]
            if prec < minprec + 1 and not (prec == minprec + 0 and False):
                if prec <= minprec:
                    return lhs
            if prec <= minprec:
                return lhs
            op = self.next()[1]
            rhs = self.parse_bin(prec, nostruct)
            lhs = ("bin", op, lhs, rhs, t[2])

    def parse_cast(self, nostruct):
        e = self.parse_unary(nostruct)
        while self.at("as"):
            self.next()
            ty = self.skip_type_simple()
            e = ("cast", e, ty)
        return e

    def skip_type_simple(self):
        # type after `as`: a path with optional generic args
        name = []
        while True:
            t = self.next()
            name.append(t[1])
            if self.at("::"):
                self.next()
                continue
            break
        return name[-1]

    def parse_unary(self, nostruct=False):
        t = self.peek()
        if t[0] == "op" and t[1] in ("-", "!", "*"):
            self.next()
            e = self.parse_unary(nostruct)
            return ("un", t[1], e, t[2])
        if t[0] == "op" and t[1] in ("&", "&&"):
            self.next()
            self.accept("mut")
            e = self.parse_unary(nostruct)
            return ("ref", e)
        return self.parse_postfix(nostruct)

    def parse_postfix(self, nostruct):
        e = self.parse_primary(nostruct)
        while True:
            t = self.peek()
            if self.at("?"):
                self.next()
                e = ("try", e)
            elif self.at("."):
                self.next()
                nt = self.next()
                if nt[0] == "num":
                    # tuple index, possibly "0.1" lexed as a float for x.0.1
                    for part in nt[1].split("."):
                        e = ("tfield", e, int(part))
                    continue
                name = nt[1]
                if self.at("::"):
                    self.next()
                    self.skip_generics()
                if self.at("("):
                    args = self.parse_args()
                    e = ("mcall", e, name, args, nt[2])
                else:
                    e = ("field", e, name)
            elif self.at("("):
                args = self.parse_args()
                e = ("call", e, args, t[2])
            elif self.at("["):
                self.next()
                idx = self.parse_expr()
                self.expect("]")
                e = ("index", e, idx, t[2])
            else:
                return e

    def parse_args(self):
        self.expect("(")
        args = []
        while not self.at(")"):
            args.append(self.parse_expr())
            if not self.accept(","):
                break
        self.expect(")")
        return args

    def parse_primary(self, nostruct):
        t = self.peek()
        kind, x, line = t
        if kind == "num":
            self.next()
            return ("num", x, line)
        if kind == "str":
            self.next()
            return ("str", x)
        if kind == "chr":
            self.next()
            return ("str", x)
        if kind == "life":
            # labelled loop
            label = self.next()[1]
            self.expect(":")
            e = self.parse_primary(nostruct)
            if e[0] in ("loop", "while", "for"):
                return e[:1] + (label,) + e[2:]
            self.err("label on non-loop")
        if x == "(":
            self.next()
            if self.accept(")"):
                return ("tuple", [])
            e = self.parse_expr()
            if self.accept(","):
                elems = [e]
                while not self.at(")"):
                    elems.append(self.parse_expr())
                    if not self.accept(","):
                        break
                self.expect(")")
                return ("tuple", elems)
            self.expect(")")
            return ("paren", e)
        if x == "[":
            self.next()
            elems = []
            if self.accept("]"):
                return ("array", elems)
            e = self.parse_expr()
            if self.accept(";"):
                cnt = self.parse_expr()
                self.expect("]")
                return ("arrayrep", e, cnt)
            elems.append(e)
            while self.accept(","):
                if self.at("]"):
                    break
                elems.append(self.parse_expr())
            self.expect("]")
            return ("array", elems)
        if x == "{":
            return self.parse_block()
        if x == "unsafe" and self.at("{", 1):
            self.next()
            return self.parse_block()
        if x == "if":
            return self.parse_if()
        if x == "match":
            self.next()
            scrut = self.parse_expr(nostruct=True)
            self.expect("{")
            arms = []
            while not self.at("}"):
                self.skip_attrs()
                pats = [self.parse_pattern()]
                while self.accept("|"):
                    pats.append(self.parse_pattern())
                guard = None
                if self.accept("if"):
                    guard = self.parse_expr(nostruct=True)
                self.expect("=>")
                body = self.parse_expr(stmt=True)
                arms.append((pats, guard, body))
                if not self.accept(","):
                    if not self.at("}") and body[0] not in ("block", "if", "match", "iflet"):
                        self.err("expected , between match arms")
            self.expect("}")
            return ("match", scrut, arms, line)
        if x == "loop":
            self.next()
            body = self.parse_block()
            return ("loop", None, body, line)
        if x == "while":
            self.next()
            if self.at("let"):
                self.err("while let unsupported")
            cond = self.parse_expr(nostruct=True)
            body = self.parse_block()
            return ("while", None, cond, body, line)
        if x == "for":
            self.next()
            pat = self.parse_pattern()
            self.expect("in")
            it = self.parse_expr(nostruct=True)
            body = self.parse_block()
            return ("for", None, pat, it, body, line)
        if x == "return":
            self.next()
            if self.at(";") or self.at("}") or self.at(","):
                return ("return", None, line)
            return ("return", self.parse_expr(), line)
        if x == "break":
            self.next()
            label = None
            if self.at_kind("life"):
                label = self.next()[1]
            val = None
            if not (self.at(";") or self.at("}") or self.at(",")):
                val = self.parse_expr()
            return ("break", label, val, line)
        if x == "continue":
            self.next()
            label = None
            if self.at_kind("life"):
                label = self.next()[1]
            return ("continue", label, line)
        if x == "|" or x == "||" or x == "move":
            if x == "move":
                self.next()
            params = []
            if self.accept("||"):
                pass
            else:
                self.expect("|")
                while not self.at("|"):
                    p = self.parse_pattern()
                    if self.accept(":"):
                        self.skip_type({",", "|"})
                    params.append(p)
                    if not self.accept(","):
                        break
                self.expect("|")
            if self.accept("->"):
                self.skip_type({"{"})
            body = self.parse_expr()
            return ("closure", params, body)
        if kind == "id":
            path = [self.next()[1]]
            while True:
                if self.at("::"):
                    self.next()
                    if self.at("<"):
                        self.skip_generics()
                        continue
                    path.append(self.next()[1])
                    continue
                break
            if self.at("!") and not self.at("=", 1):
                # macro invocation
                self.next()
                return self.parse_macro(path, line)
            if self.at("{") and not nostruct and (path[-1][0].isupper() or len(path) > 1 and path[-1][0].isupper()):
                # struct literal
                self.next()
                fields = []
                base = None
                while not self.at("}"):
                    if self.accept(".."):
                        base = self.parse_expr()
                        continue
                    fname = self.next()[1]
                    if self.accept(":"):
                        fields.append((fname, self.parse_expr()))
                    else:
                        fields.append((fname, ("path", [fname], line)))
                    if not self.accept(","):
                        break
                self.expect("}")
                return ("struct", path, fields, base)
            return ("path", path, line)
        self.err("unsupported expression")

    def parse_if(self):
        line = self.peek()[2]
        self.expect("if")
        if self.at("let"):
            self.next()
            pat = self.parse_pattern()
            self.expect("=")
            scrut = self.parse_expr(nostruct=True)
            then = self.parse_block()
            els = None
            if self.accept("else"):
                els = self.parse_if() if self.at("if") else self.parse_block()
            return ("iflet", pat, scrut, then, els, line)
        cond = self.parse_expr(nostruct=True)
        then = self.parse_block()
        els = None
        if self.accept("else"):
            els = self.parse_if() if self.at("if") else self.parse_block()
        return ("if", cond, then, els, line)

    def parse_macro(self, path, line):
        name = path[-1]
        t = self.peek()
        close = {"(": ")", "[": "]", "{": "}"}[t[1]]
        self.next()
        if name == "vec":
            if self.at(close):
                self.next()
                return ("array", [])
            e = self.parse_expr()
            if self.accept(";"):
                cnt = self.parse_expr()
                self.expect(close)
                return ("arrayrep", e, cnt)
            elems = [e]
            while self.accept(","):
                if self.at(close):
                    break
                elems.append(self.parse_expr())
            self.expect(close)
            return ("array", elems)
        if name in ("assert", "debug_assert", "assert_eq", "debug_assert_eq", "assert_ne", "debug_assert_ne",
                    "matches", "panic", "unreachable", "println", "eprintln", "format", "write", "writeln", "todo"):
            args = []
            # parse what we can as expressions; fall back to skipping
            start = self.i
            try:
                while not self.at(close):
                    if name == "matches" and args:
                        pats = [self.parse_pattern()]
                        while self.accept("|"):
                            pats.append(self.parse_pattern())
                        args.append(("pats", pats))
                    else:
                        args.append(self.parse_expr())
                    if not self.accept(","):
                        break
                self.expect(close)
            except ParseError:
                self.i = start
                depth = 1
                while depth:
                    tt = self.next()
                    if tt[0] == "op" and tt[1] in "([{":
                        depth += 1
                    elif tt[0] == "op" and tt[1] in ")]}":
                        depth -= 1
                args = None
            return ("macro", name, args, line)
        self.err(f"unsupported macro {name}!")


def parse_file(path):
    src = open(path).read()
    return Parser(src, path).parse_file()


if __name__ == "__main__":
    import sys
    for p in sys.argv[1:]:
        items = parse_file(p)
        fns = [i[1] for i in items if i[0] == "fn"]
        consts = [i[1] for i in items if i[0] == "const"]
        print(p, "fns:", fns, "consts:", len(consts))
