"""R units for C02 / C06 / C07 on the explicit Runge-Kutta methods: the tableau is extracted from
one symbolically executed main-loop iteration of the real `solve` (rsym.tableau) and the
obligations are discharged by z3 (ground rational conditions for every rooted tree, quantified
polynomial conditions for the dense output)."""
import time

import sympy as sp
import z3

from . import tableau as TB
from . import replay
from .interp import Unsupported
from .trees import trees, gamma

SPEC = {
    # method: order p, estimator vanishing orders (sorted), dense order q
    "RK4": {"p": 4, "est": [], "q": 3},
    "RK23": {"p": 3, "est": [2], "q": 3},
    "DOPRI5": {"p": 5, "est": [4], "q": 4},
    "DOP853": {"p": 8, "est": [3, 5], "q": 7},
}

_cache = {}


def tableau(method, config="default"):
    if (method, config) not in _cache:
        _cache[(method, config)] = TB.extract(method, config=config)
    return _cache[(method, config)]


def _result(name, q, t0, failed, extra=None, replayed=None, replay_src="", replay_log=""):
    r = {
        "name": name,
        "verdict": "fail" if failed else ("inconclusive" if q.unknown else "pass"),
        "wall_s": round(time.time() - t0, 2),
        "solver_s": round(q.solver_s, 3),
        "queries": {"total": q.n, "ground": q.ground, "quantified": q.quantified},
        "obligations": q.n,
        "discharged": q.n - len(q.failed) - len(q.unknown),
        "nontrivial": 1 if q.n > 0 else 0,
        "sample": q.samples[0] if q.samples else None,
    }
    if q.unknown:
        r["reason"] = "solver returned unknown for: " + "; ".join(q.unknown[:3])
    if failed:
        r["failed"] = failed
        r["replayed"] = replayed
        r["replay_src"] = replay_src
        r["replay_log"] = replay_log
    if extra:
        r.update(extra)
    return r


def structure_unit(method, config="default"):
    """C02 (1),(2),(5): stage arguments, abscissae, new state and FSAL as the code applies them."""
    suffix = "" if config == "default" else "_" + config

    def unit(tier="quick", seed=0):
        t0 = time.time()
        T = tableau(method, config)
        q = TB.Q()
        failed = [v for v in T.violations if "interpolant" not in v]  # interpolant facts belong to C06/C07
        x0 = sp.Symbol("x0", real=True)
        y0 = sp.Symbol("y0_0", real=True)
        h = TB.H0
        K = T.K
        symmap = {}
        # (1) un-normalised stage arguments equal y + h*sum a_ji K_i for all y,h,K (quantified, multilinear)
        for j, (t, arg) in enumerate(T.raw_calls):
            norm = y0 + h * sum(T.A[j][i] * K[i] for i in range(T.s))
            ok, _ = q.unsat([to(arg, symmap) != to(norm, symmap)], f"stage {j + 1} argument", True,
                            sample={"stage": j + 1, "forall": "y0,h0,K_i", "row": [str(a) for a in T.A[j] if a != 0][:4]})
            if ok is False:
                failed.append(f"{method}: stage {j + 1} argument is not y + h*sum(a_ji*k_i)")
            tn = x0 + T.c[j] * h
            ok, _ = q.unsat([to(t, symmap) != to(tn, symmap)], f"stage {j + 1} time", True)
            if ok is False:
                failed.append(f"{method}: stage {j + 1} is not evaluated at x + c*h")
            # (2) row-sum condition c_j = sum_i a_ji (to rounding of the constants)
            d = sum(T.A[j]) - T.c[j]
            tol = TB.tol_for(list(T.A[j]) + [T.c[j]])
            ok, _ = q.unsat([z3.Or(TB.q2z(d) > TB.q2z(tol), TB.q2z(d) < -TB.q2z(tol))], f"row sum {j + 1}", False)
            if ok is False:
                failed.append(f"{method}: row-sum condition fails for stage {j + 1}: sum(a)-c = {float(d):.3e}")
        # new state
        norm = y0 + h * sum(T.b[i] * K[i] for i in range(T.s))
        ok, _ = q.unsat([to(T.y_new, symmap) != to(norm, symmap)], "new state", True)
        if ok is False:
            failed.append(f"{method}: new state is not y + h*sum(b_i*k_i)")
        # (5) FSAL: the derivative kept as next k1 was evaluated at (x+h, y_new)
        if T.next_k1_call is None:
            failed.append(f"{method}: next step's k1 is not one of the derivatives evaluated in this step")
        else:
            t, arg = T.raw_calls[T.next_k1_call]
            ok1, _ = q.unsat([to(t, symmap) != to(x0 + h, symmap)], "fsal time", True)
            ok2, _ = q.unsat([to(arg, symmap) != to(T.y_new, symmap)], "fsal state", True)
            if ok1 is False or ok2 is False:
                failed.append(f"{method}: the derivative reused as k1 was not evaluated at (x+h, y_new) (call {T.next_k1_call + 1})")
        rep = replay.tableau_replay(method, T, failed) if failed else (None, "", "")
        return _result(f"c02_structure_{method.lower()}{suffix}", q, t0, failed, replayed=rep[0], replay_src=rep[1], replay_log=rep[2],
                       extra={"functions": [f"{method}::solve (one main-loop iteration, accepted path)"],
                              "bounds": f"n=1; config={config}; {T.n_paths} paths through one iteration from an arbitrary loop-head state, {T.n_accepted_paths} accepted; exact real arithmetic"})

    unit.__name__ = f"c02_structure_{method.lower()}{suffix}"
    return unit


def to(e, symmap):
    return TB.to_z3(sp.expand(e) if False else e, symmap)


def order_unit(method, max_order=None):
    """C02 (3),(4): every order condition up to p; estimator orders."""

    def unit(tier="quick", seed=0):
        t0 = time.time()
        T = tableau(method)
        spec = SPEC[method]
        p = spec["p"] if max_order is None else min(spec["p"], max_order)
        q = TB.Q()
        res = TB.order_conditions(T, T.b, p, q, "order")
        failed = [f"{lab}" for lab, _ in q.failed]
        extra = {"trees": res["trees"], "max_residual": res["max_resid"]}
        if max_order is None or max_order >= spec["p"]:
            # not of order p+1 (a method that satisfied them too would contradict 'and no faster')
            n_before = len(q.failed)
            TB.order_conditions(T, T.b, 0, q, "order", expect_nonzero_at=spec["p"] + 1) if spec["p"] < 8 else None
            failed += [lab for lab, _ in q.failed[n_before:]]
            # estimator forms: coefficient sum ~ 0
            ests = [f for f in T.err_forms if abs(float(sum(f))) < 1e-12]
            found = []
            for f in ests:
                vo = 0
                for pp in range(1, spec["p"] + 1):
                    worst = 0.0
                    for t in trees(pp):
                        ph = TB.phi(t, T.A, T.s)
                        worst = max(worst, abs(float(sum(f[i] * ph[i] for i in range(T.s)))))
                    if worst > 1e-10:
                        break
                    vo = pp
                found.append(vo)
            extra["estimator_vanishing_orders"] = sorted(found)
            if sorted(found) != spec["est"]:
                failed.append(f"{method}: error-estimator forms vanish up to orders {sorted(found)}, expected {spec['est']}")
            for f, vo in zip(ests, found):
                nb = len(q.failed)
                TB.order_conditions(T, f, vo, q, "estimator", expect_nonzero_at=vo + 1)
                failed += [lab for lab, _ in q.failed[nb:]]
        rep = replay.tableau_replay(method, T, failed) if failed else (None, "", "")
        extra.update({"functions": [f"{method}::solve stage blocks + module constants"],
                      "bounds": f"all rooted trees of order <= {p} ({res['trees']} trees); constants = exact rationals of their doubles, tolerance 64*2^-53*sum|terms|",
                      "trusted_base": ["Butcher's theorem: order p <=> order conditions for all rooted trees up to p"]})
        return _result(f"c02_order_{method.lower()}" + (f"_le{max_order}" if max_order else ""), q, t0, failed, extra,
                       replayed=rep[0], replay_src=rep[1], replay_log=rep[2])

    unit.__name__ = f"c02_order_{method.lower()}" + (f"_le{max_order}" if max_order else "")
    return unit


def dense_unit(method, max_order=None, config="default"):
    """C07: continuous order conditions for all theta in [0,1]; C06 endpoints."""
    suffix = "" if config == "default" else "_" + config

    def unit(tier="quick", seed=0):
        t0 = time.time()
        T = tableau(method, config)
        if T.bth is None:
            bad = [v for v in T.violations if "interpolant" in v]
            if not bad:
                raise Unsupported(f"{method}/{config}: no accepted path hands an interpolant to the callback")
            q = TB.Q()
            rep = replay.dense_replay(method, T, bad, config)
            return _result(f"c07_dense_{method.lower()}{suffix}", q, t0, bad, replayed=rep[0], replay_src=rep[1], replay_log=rep[2])
        spec = SPEC[method]
        qd = spec["q"] if max_order is None else min(spec["q"], max_order)
        q = TB.Q()
        res = TB.order_conditions(T, T.bth, qd, q, "dense", theta=TB.TH)
        failed = [lab for lab, _ in q.failed] + [v for v in T.violations if "interpolant" in v or "not evaluated at" in v]
        rep = replay.dense_replay(method, T, failed, config) if failed else (None, "", "")
        return _result(f"c07_dense_{method.lower()}{suffix}" + (f"_le{max_order}" if max_order else ""), q, t0, failed,
                       {"trees": res["trees"], "max_coeff_residual": res["max_resid"],
                        "functions": [f"{method}::solve 'Prepare dense output' composed with {method}::interpolate"],
                        "bounds": f"all rooted trees of order <= {qd}; theta quantified over [0,1] (univariate polynomial, degree <= {max(sp.Poly(b, TB.TH).degree() for b in T.bth if b != 0)})",
                        "trusted_base": ["continuous order conditions (Hairer-Norsett-Wanner II.6): uniform order q of the interpolant"]},
                       replayed=rep[0], replay_src=rep[1], replay_log=rep[2])

    unit.__name__ = f"c07_dense_{method.lower()}{suffix}" + (f"_le{max_order}" if max_order else "")
    return unit


def endpoints_unit(method):
    """C06: the step interpolant equals the stored states at both ends, for all y, h, k."""

    def unit(tier="quick", seed=0):
        t0 = time.time()
        T = tableau(method)
        q = TB.Q()
        failed = []
        y0 = sp.Symbol("y0_0", real=True)
        symmap = {}
        d0 = T.dense_raw.subs(TB.TH, 0)
        d1 = T.dense_raw.subs(TB.TH, 1)
        ok, _ = q.unsat([to(d0, symmap) != to(y0, symmap)], "left end", True, sample={"forall": "y0,h0,K_i", "identity": "interp(xold) == y_old"})
        if ok is False:
            failed.append(f"{method}: interpolant at the left end differs from the stored state")
        # right end: equality of polynomials with double coefficients holds only to rounding -> compare coefficientwise
        diff = sp.expand(d1 - T.y_new)
        cs = TB.linear_coeffs(diff / TB.H0, T.K, "right end difference")
        for i, cf in enumerate(cs):
            tol = TB.tol_for([T.b[i], T.bth[i].subs(TB.TH, 1), 1])
            ok, _ = q.unsat([z3.Or(TB.q2z(cf) > TB.q2z(tol), TB.q2z(cf) < -TB.q2z(tol))], f"right end k{i + 1}", False)
            if ok is False:
                failed.append(f"{method}: interpolant at the right end differs from the new state (coefficient of k{i + 1}: {float(cf):.3e})")
        # the interpolant handed to the callback spans exactly the step
        ok, _ = q.unsat([to(T.interp_h, symmap) != to(TB.H0, symmap)], "interp h", True)
        if ok is False:
            failed.append(f"{method}: interpolant step differs from the accepted step")
        rep = replay.dense_replay(method, T, failed) if failed else (None, "", "")
        return _result(f"c06_endpoints_{method.lower()}", q, t0, failed,
                       {"functions": [f"{method}::solve dense block", f"{method}::interpolate"], "bounds": "n=1, exact real arithmetic, all y,h,k"},
                       replayed=rep[0], replay_src=rep[1], replay_log=rep[2])

    unit.__name__ = f"c06_endpoints_{method.lower()}"
    return unit
