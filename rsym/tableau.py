"""Extraction of the Runge-Kutta tableau *as the code applies it* from one symbolically executed
main-loop iteration, and the SMT obligations over it (C02, C06 endpoints, C07)."""
import itertools
import time
from fractions import Fraction

import sympy as sp
import z3

from . import sx
from .interp import Unsupported, REnum
from .trees import trees, gamma, order

H0 = sp.Symbol("h0", positive=True)
SPAN = sp.Symbol("span", positive=True)
TH = sp.Symbol("theta", real=True)


def accepted_paths(paths):
    """Paths in which the first trial step was accepted and the loop continued normally."""
    out = []
    for p in paths:
        if p.outcome[0] == "end" and p.outcome[1] == "end_of_iteration" and len(p.rec.callbacks) == 2:
            out.append(p)
    return out


def ksyms(path):
    """Fresh symbols bound by the ode calls, in call order (n = 1: one symbol per call)."""
    return [outs[0] for (_, _, outs) in path.rec.ode_calls]


def linear_coeffs(expr, syms, what, allowed=()):
    """expr must be an affine form sum c_i * s_i (no constant term): returns [c_i]."""
    e = sp.expand(expr)
    coeffs = []
    rest = e
    for s in syms:
        c = e.coeff(s, 1)
        coeffs.append(c)
        rest = rest - c * s
    rest = sp.expand(rest)
    if rest != 0:
        raise Unsupported(f"{what}: not linear in the stage derivatives (remainder {str(rest)[:80]})")
    for c in coeffs:
        if c.free_symbols - set(allowed):
            raise Unsupported(f"{what}: coefficient depends on {c.free_symbols}")
    return coeffs


class Tableau:
    pass


def extract(method, backward=False, config="default"):
    """Returns a Tableau (the one of the first accepted path, after checking that all accepted
    paths agree) with A, c, b, the FSAL map, the dense weights b_i(theta), the linear forms found
    in the error estimate, the raw expressions for solver-side structure checks, and
    `violations`: structural non-conformances found while reading the tableau off the code.

    config "default": solver defaults (dense output on), loop-carried float scalars havoced.
    config "ondemand": dense_output = false, loop-carried bools and `xout` havoced too (dense
    output only when the callback asked for an output point in this step)."""
    if config == "default":
        paths = sx.exact_first_iteration(method, n=1, backward=backward)
    else:
        paths = sx.exact_first_iteration(method, n=1, backward=backward, havoc="all", overrides={"dense_output": False})
    acc = accepted_paths(paths)
    if not acc:
        raise Unsupported(f"{method}: no accepted-step path found in one iteration ({len(paths)} paths)")
    tabs = [_extract_one(method, p, backward) for p in acc]
    t0 = tabs[0]
    for t in tabs:
        if t.bth is not None and t0.bth is None:
            t0 = t
    t0.violations = list(t0.violations)
    for t in tabs:
        for v in t.violations:
            if v not in t0.violations:
                t0.violations.append(v)
        m = min(t.s, t0.s)  # paths without dense stages make fewer right-hand-side calls
        if ([r[:m] for r in t.A[:m]] != [r[:m] for r in t0.A[:m]] or t.b[:m] != t0.b[:m] or t.c[:m] != t0.c[:m]
                or any(x != 0 for x in t.b[m:]) or any(x != 0 for x in t0.b[m:])):
            t0.violations.append(f"{method}: accepted paths apply different tableaux (path {t.path.decisions})")
        if t.next_k1_call != t0.next_k1_call:
            t0.violations.append(f"{method}: accepted paths disagree on which derivative becomes the next k1 "
                                 f"(call {t0.next_k1_call} vs {t.next_k1_call}: path {t.path.decisions})")
        if t.bth is not None and t0.bth is not None and t.bth != t0.bth:
            t0.violations.append(f"{method}: accepted paths build different interpolants (path {t.path.decisions})")
    t0.all = tabs
    t0.n_paths = len(paths)
    t0.n_accepted_paths = len(acc)
    t0.n_with_interpolant = sum(1 for t in tabs if t.bth is not None)
    t0.n_rejected_paths = len([p for p in paths if p.outcome[0] == "end" and len(p.rec.callbacks) == 1])
    t0.config = config
    return t0


def _extract_one(method, p, backward):
    T = Tableau()
    T.method = method
    K = ksyms(p)
    x0 = sp.Symbol("x0", real=True)
    y0 = sp.Symbol("y0_0", real=True)
    h = -H0 if backward else H0
    calls = p.rec.ode_calls
    # the step actually used: time of the second callback minus x0
    cb = p.rec.callbacks[1]
    hstep = sp.simplify(cb["x"] - cb["xold"])
    if sp.simplify(hstep - h) != 0:
        raise Unsupported(f"accepted first step has length {hstep}, expected {h}")
    if sp.simplify(cb["xold"] - x0) != 0:
        raise Unsupported("first step does not start at x0")
    # which ode calls happen before the callback? all recorded ones up to the dense stages; take all
    s = len(calls)
    A, c, raw = [], [], []
    T.violations = []
    for j, (t, args, outs) in enumerate(calls):
        row = linear_coeffs((args[0] - y0) / h, K, f"stage {j + 1} argument")
        cj = sp.expand((t - x0) / h)
        if cj.free_symbols:
            T.violations.append(f"{method}: right-hand-side call {j + 1} is not evaluated at x + c*h of the current step (time = {str(t)[:70]})")
            cj = sp.nsimplify(cj.subs({sy: 0 for sy in cj.free_symbols}))
        if any(row[i] != 0 for i in range(j, s)):
            raise Unsupported(f"stage {j + 1} uses a derivative not yet computed")
        A.append(row)
        c.append(cj)
        raw.append((t, args[0]))
    T.A, T.c, T.K, T.raw_calls = A, c, K, raw
    T.A_abs = [[abs(a) for a in row] for row in A]
    T.y_new = cb["y"][0]
    T.b = linear_coeffs((T.y_new - y0) / h, K, "new state")
    T.s = s
    # FSAL / next k1: what the solver holds as k1 for the next step
    try:
        k1n = p.var("k1").items()[0]
        T.next_k1 = k1n
        T.next_k1_call = K.index(k1n) if k1n in K else None
    except KeyError:
        T.next_k1 = None
        T.next_k1_call = None
    # dense output weights (only if an interpolant was handed to the callback)
    T.bth = None
    T.dense_raw = None
    ip = cb["interp"]
    if isinstance(ip, REnum) and ip.name == "Some":
        yi, ipf = sx.call_interpolate(p, 1, TH)
        T.dense_raw = yi[0]
        try:
            T.bth = linear_coeffs(sp.expand((yi[0] - y0) / h), K, "dense output", allowed=(TH,))
        except Unsupported as e:
            T.violations.append(f"{method}: the interpolant handed to the callback is not y + h*sum(b_i(theta)*k_i) "
                                f"(its coefficients were not computed on this path?): {e}")
            T.bth = None
        T.interp_h = ipf["h"]
        T.interp_xold = ipf["xold"]
    # linear forms in the error estimate: taken from the accept decision's condition
    T.err_forms = []
    for cond, choice, _, why in p.trail:
        if isinstance(cond, sp.core.relational.Relational) and any(k in cond.free_symbols for k in K[1:]):
            T.err_forms = _linear_forms(cond.lhs - cond.rhs, K, y0)
            T.accept_cond = cond
            T.accept_choice = choice
            break
    T.path = p
    return T


def _linear_forms(expr, K, y0):
    """Maximal sub-expressions that are linear forms in the stage derivatives with constant
    coefficients (up to a common factor in h) and do not involve the state."""
    found = []
    for node in sp.preorder_traversal(expr):
        if not isinstance(node, sp.Add):
            continue
        if y0 in node.free_symbols:
            continue
        ks = [k for k in K if k in node.free_symbols]
        if len(ks) < 2:
            continue
        e = sp.expand(node)
        try:
            poly = sp.Poly(e, *K)
        except sp.PolynomialError:
            continue
        if poly.total_degree() != 1 or poly.coeff_monomial(1) != 0:
            continue
        coeffs = [poly.coeff_monomial(k) for k in K]
        # normalise away a common symbolic factor (h)
        nz = [c for c in coeffs if c != 0]
        scale = None
        for sym in nz[0].free_symbols:
            scale = sym
        if any(cf.free_symbols - ({scale} if scale is not None else set()) for cf in nz):
            continue
        if scale is not None:
            coeffs = [sp.simplify(cf / scale) for cf in coeffs]
            if any(cf.free_symbols for cf in coeffs):
                continue
        if coeffs not in found:
            found.append(coeffs)
    return found


# ----------------------------------------------------------------------------- elementary weights
def phi(t, A, s):
    """Phi_i(t) for every stage i (A as list of rows of sympy rationals, explicit method)."""
    if t == ():
        return [sp.Integer(1)] * s
    out = [sp.Integer(1)] * s
    for ch in t:
        vc = phi(ch, A, s)
        out = [out[i] * sum(A[i][j] * vc[j] for j in range(s)) for i in range(s)]
    return out


def q2z(r):
    r = sp.Rational(r)
    return z3.RealVal(int(r.p)) / z3.RealVal(int(r.q))


def to_z3(expr, symmap):
    """sympy -> z3 (reals). Abs/Max/Min -> ite; sqrt/powf/sign handled by the caller's symmap or
    rejected."""
    if expr.is_Rational:
        return q2z(expr)
    if expr.is_Symbol:
        if expr not in symmap:
            symmap[expr] = z3.Real(str(expr))
        return symmap[expr]
    if isinstance(expr, sp.Add):
        r = to_z3(expr.args[0], symmap)
        for a in expr.args[1:]:
            r = r + to_z3(a, symmap)
        return r
    if isinstance(expr, sp.Mul):
        r = to_z3(expr.args[0], symmap)
        for a in expr.args[1:]:
            r = r * to_z3(a, symmap)
        return r
    if isinstance(expr, sp.Pow):
        b, e = expr.args
        if e.is_Integer:
            bz = to_z3(b, symmap)
            k = int(e)
            r = z3.RealVal(1)
            for _ in range(abs(k)):
                r = r * bz
            return r if k >= 0 else 1 / r
        if e == sp.Rational(1, 2):
            key = ("sqrt", b)
            if key not in symmap:
                v = z3.Real(f"sqrt_{len(symmap)}")
                symmap[key] = v
                symmap.setdefault("_side", []).append(z3.And(v >= 0, v * v == to_z3(b, symmap)))
            return symmap[key]
        if e == sp.Rational(-1, 2):
            return 1 / to_z3(sp.sqrt(b), symmap)
    if isinstance(expr, sp.Abs):
        a = to_z3(expr.args[0], symmap)
        return z3.If(a >= 0, a, -a)
    if isinstance(expr, sp.Max):
        r = to_z3(expr.args[0], symmap)
        for a in expr.args[1:]:
            az = to_z3(a, symmap)
            r = z3.If(r >= az, r, az)
        return r
    if isinstance(expr, sp.Min):
        r = to_z3(expr.args[0], symmap)
        for a in expr.args[1:]:
            az = to_z3(a, symmap)
            r = z3.If(r <= az, r, az)
        return r
    raise Unsupported(f"cannot translate {type(expr).__name__} to SMT: {str(expr)[:60]}")


class Q:
    """Bookkeeping of solver queries for the evidence file."""

    def __init__(self):
        self.n = 0
        self.ground = 0
        self.quantified = 0
        self.solver_s = 0.0
        self.failed = []
        self.samples = []
        self.unknown = []

    def unsat(self, constraints, label, quantified, sample=None, timeout_ms=60000):
        """The negated obligation must be unsat."""
        s = z3.Solver()
        s.set("timeout", timeout_ms)
        for c in constraints:
            s.add(c)
        t0 = time.time()
        r = s.check()
        self.solver_s += time.time() - t0
        self.n += 1
        if quantified:
            self.quantified += 1
        else:
            self.ground += 1
        if sample is not None and len(self.samples) < 6:
            self.samples.append(sample)
        if r == z3.unsat:
            return True, None
        if r == z3.sat:
            m = s.model()
            self.failed.append((label, {str(d): str(m[d]) for d in m.decls()}))
            return False, m
        self.unknown.append(label)
        return None, None

    def sat(self, constraints, label):
        """Sanity query: must be satisfiable (non-vacuity)."""
        s = z3.Solver()
        s.set("timeout", 30000)
        for c in constraints:
            s.add(c)
        t0 = time.time()
        r = s.check()
        self.solver_s += time.time() - t0
        self.n += 1
        return r == z3.sat


def tol_for(terms):
    """Rounding allowance: the constants are binary64 roundings of the exact tableau."""
    return sp.Rational(64, 2 ** 53) * sum(abs(t) for t in terms) + sp.Rational(1, 10 ** 300)


def order_conditions(T, weights, p_max, q, label, expect_nonzero_at=None, theta=None):
    """For every rooted tree t with |t| <= p_max: sum_i w_i Phi_i(t) == target(t) (to rounding).
    weights: list of sympy rationals (ground) or polynomials in theta (quantified over [0,1]).
    target: 1/gamma(t) (weights b), theta^|t|/gamma(t) (dense), 0 (estimator)."""
    s = T.s
    results = {"trees": 0, "max_resid": 0.0}
    for p in range(1, p_max + 1):
        for t in trees(p):
            ph = phi(t, T.A, s)
            terms = [weights[i] * ph[i] for i in range(s)]
            lhs = sp.expand(sum(terms))
            if label == "estimator":
                target = sp.Integer(0)
            elif theta is not None:
                target = theta ** p / gamma(t)
            else:
                target = sp.Rational(1, gamma(t))
            results["trees"] += 1
            # rounding allowance: every tableau constant is the binary64 rounding of the exact one (relative
            # perturbation <= 2^-53); an elementary weight of a tree with |t| nodes is a product of |t|
            # such constants summed over stages, so its perturbation is bounded by |t| * u * (the same
            # expression evaluated with absolute values), see the evidence's "tolerance" note.
            ph_abs = phi(t, T.A_abs, s)
            if theta is None:
                mag = sum(abs(sp.Rational(weights[i])) * ph_abs[i] for i in range(s)) + abs(target)
                tol = sp.Rational(16 * (p + 1), 2 ** 53) * mag + sp.Rational(1, 10 ** 300)
                d = lhs - target
                results["max_resid"] = max(results["max_resid"], abs(float(d)))
                ok, _ = q.unsat([z3.Or(q2z(d) > q2z(tol), q2z(d) < -q2z(tol))], f"{T.method} {label} tree {t}", False,
                                sample={"tree": str(t), "order": p, "lhs": str(sp.nsimplify(lhs))[:60], "target": str(target)})
            else:
                poly = sp.Poly(sp.expand(lhs - target), theta)
                coeffs = poly.all_coeffs()
                mag = sum(sum(abs(sp.Rational(cf)) for cf in sp.Poly(weights[i], theta).all_coeffs()) * ph_abs[i] for i in range(s)) + abs(sp.Rational(1, gamma(t)))
                tol = sp.Rational(16 * (p + 1), 2 ** 53) * mag
                results["max_resid"] = max([results["max_resid"]] + [abs(float(cf)) for cf in coeffs])
                th = z3.Real("theta")
                d = to_z3(poly.as_expr(), {theta: th})
                ok, _ = q.unsat([th >= 0, th <= 1, z3.Or(d > q2z(tol), d < -q2z(tol))], f"{T.method} {label} tree {t}", True,
                                sample={"tree": str(t), "order": p, "forall": "theta in [0,1]", "degree": poly.degree()})
    if expect_nonzero_at is not None:
        p = expect_nonzero_at
        best = 0.0
        for t in trees(p):
            ph = phi(t, T.A, s)
            if theta is None:
                d = sum(weights[i] * ph[i] for i in range(s)) - (0 if label == "estimator" else sp.Rational(1, gamma(t)))
                best = max(best, abs(float(d)))
            else:
                d = sp.Poly(sp.expand(sum(weights[i] * ph[i] for i in range(s)) - theta ** p / gamma(t)), theta)
                best = max([best] + [abs(float(cf)) for cf in d.all_coeffs()])
        results["next_order_resid"] = best
        # the solver certifies "some tree of order p is NOT satisfied": disjunction over the trees
        ors = []
        for t in trees(p):
            ph = phi(t, T.A, s)
            if theta is None:
                d = sum(weights[i] * ph[i] for i in range(s)) - (0 if label == "estimator" else sp.Rational(1, gamma(t)))
                ors.append(z3.Or(q2z(d) > q2z(sp.Rational(1, 10 ** 6)), q2z(d) < -q2z(sp.Rational(1, 10 ** 6))))
        if ors:
            okk = q.sat([z3.Or(*ors)], f"{T.method} {label} not of order {p}")
            if not okk:
                q.failed.append((f"{T.method} {label}: satisfies every order-{p} condition too (expected order exactly {p - 1})", {}))
    return results
