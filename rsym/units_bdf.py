"""R units for BDF's main loop (C03/C04/C11/C18/C19 facts), one iteration from an arbitrary
loop-head state. Bounds specific to BDF (stated in the evidence): simplified Newton loop unrolled
once (`newton_maxiter = 1`), order enumerated 1..5, LU factorisation succeeds or fails
nondeterministically, matrices and the difference array are free data (`change_d` abstracted to a
havoc: its polynomial preservation is C06's c06_bdf_rescaling)."""
import time
from fractions import Fraction

import z3

from . import stepper as S
from . import replay
from .interp import REnum, RStruct, SInt, Unsupported, RVec
from .stepper import qv, zabs, EPS
from .units_step import Ob, _delta, _final_struct, path_script

_cache = {}


def inv_bdf(env, w, dom, it, tiny_step=False):
    x, h = S.get(env, "x"), S.get(env, "current_h")
    dom.add(w.d(x.t - w.x0.t) >= 0)
    dom.add(w.d(w.xend.t - x.t) > 0)
    dom.add(h.t >= 0)
    # steps above the resolution of x (BDF's own guard `x + 0.1|h| == x` is a bit-level test: engine K's business)
    dom.add(z3.Or(h.t == 0, h.t >= qv(64 * EPS) * S.zmax(zabs(x.t), zabs(w.xend.t))))


def paths(backward, flags):
    key = (backward, flags)
    if key not in _cache:
        t0 = time.time()
        ps = S.body_paths("BDF", backward=backward, with_max_step=True, inv=inv_bdf, flags_symbolic=flags, max_paths=8000)
        _cache[key] = (ps, time.time() - t0)
    return _cache[key]


def prefix(backward, with_first_step=True):
    key = ("prefix", backward, with_first_step)
    if key not in _cache:
        t0 = time.time()
        ps = S.prefix_paths("BDF", backward=backward, with_max_step=True, with_first_step=with_first_step)
        _cache[key] = (ps, time.time() - t0)
    return _cache[key]


def bdf_iteration(backward=False):
    def unit(tier="quick", seed=0):
        t0 = time.time()
        ob = Ob("bdf_iteration" + ("_back" if backward else ""))
        ps, gen_s = paths(backward, False)
        ob.paths = len(ps)
        for p in ps:
            w = p.w
            if p.outcome[0] == "panic":
                ob.failed.append((f"BDF: panic inside the main loop: {p.outcome[1]}", p.label(), {}, path_script(p)))
                continue
            xh, hh = p.head["x"], p.head["current_h"]
            for j, (t, args, outs) in enumerate(p.rec.ode_calls):
                ob.check(p, w.in_span(t.t), f"BDF: right-hand side evaluated outside [x0,xend] (+-4ulp) (call {j + 1} of the iteration)")
            for (t, _) in p.rec.jac_calls:
                ob.check(p, w.in_span(t.t), "BDF: Jacobian evaluated outside [x0,xend] (+-4ulp)")
            for cb in p.rec.callbacks:
                ob.check(p, zabs(cb["xold"].t - xh.t) <= w.slack, "BDF: callback xold is not the previous x (to rounding)")
                ob.check(p, w.in_span(cb["x"].t), "BDF: callback time outside [x0,xend] (+-4ulp)")
                # (a remaining distance below the resolution of x is caught by BDF's bit-level guard `x + 0.1|h| == x`: not visible over the reals)
                far = w.d(w.xend.t - xh.t) >= qv(64 * EPS) * w.S
                ob.check(p, z3.Implies(far, w.d(cb["x"].t - xh.t) > 0), "BDF: accepted step does not move toward xend")
                if w.hmax is not None:
                    lands = zabs(cb["x"].t - w.xend.t) <= w.slack
                    lim = z3.If(lands, qv(Fraction(10001, 10000)) * w.hmax.t * (1 + qv(8 * EPS)), w.hmax.t * (1 + qv(8 * EPS)))
                    ob.check(p, zabs(cb["x"].t - xh.t) <= lim + w.slack, "BDF: accepted step longer than max_step (0.01% stretch only when landing on xend)")
                ip = cb["interp"]
                ok_ip = isinstance(ip, REnum) and ip.name == "Some"
                ob.check(p, ok_ip, "BDF: accepted step handed to the callback without an interpolant")
                if ok_ip:
                    f = ip.payload[0].f
                    ob.check(p, f["xold"].t.eq(xh.t), "BDF: interpolant's left end is not the step's start (bit-for-bit)")
                    ob.check(p, zabs(f["xold"].t + f["h"].t - cb["x"].t) <= w.slack, "BDF: interpolant does not span the accepted step")
            # counters
            ev0, st0 = p.head["evals"], p.head["steps"]
            ev1, st1 = _final_struct(p, "evals"), _final_struct(p, "steps")
            d_ode, d_jac = _delta(ev0.f["ode"], ev1.f["ode"]), _delta(ev0.f["jac"], ev1.f["jac"])
            d_acc, d_tot = _delta(st0.f["accepted"], st1.f["accepted"]), _delta(st0.f["total"], st1.f["total"])
            ob.check(p, d_ode == len(p.rec.ode_calls), f"BDF: evals.ode advanced by {d_ode} in an iteration that made {len(p.rec.ode_calls)} right-hand-side calls")
            ob.check(p, d_jac == len(p.rec.jac_calls), f"BDF: evals.jac advanced by {d_jac} in an iteration that made {len(p.rec.jac_calls)} Jacobian calls")
            ob.check(p, d_acc == len(p.rec.callbacks), f"BDF: steps.accepted advanced by {d_acc} in an iteration with {len(p.rec.callbacks)} callbacks")
            ob.check(p, d_tot is not None and d_acc is not None and d_tot >= d_acc, f"BDF: steps.total advanced by {d_tot} < accepted {d_acc}")
            st = S.status_of(p.outcome)
            if st == "Success":
                lastx = p.rec.callbacks[-1]["x"] if p.rec.callbacks else xh
                ob.check(p, zabs(lastx.t - w.xend.t) <= w.slack, "BDF: Success reported before reaching xend (or beyond it)")
            if st == "NeedLargerNMax":
                ob.check(p, not p.rec.ode_calls and not p.rec.callbacks, "BDF: evaluations or callbacks after the step budget was exhausted")
            if st is None and p.exit == "continue":
                a = p.after
                ob.check(p, w.d(a["x"].t - w.x0.t) >= 0, "BDF: loop-head invariant not preserved: x not before x0")
                ob.check(p, w.d(w.xend.t - a["x"].t) >= 0, "BDF: loop-head invariant not preserved: x not beyond xend")
                ob.check(p, a["current_h"].t >= 0, "BDF: loop-head invariant not preserved: step magnitude negative")
                if not p.rec.callbacks:
                    ob.check(p, a["current_h"].t <= qv(Fraction(95, 100)) * hh.t * (1 + qv(8 * EPS)), "BDF: a rejected trial does not shrink the step by at least 5%")
            if len(ob.samples) < 3:
                ob.samples.append({"path": p.label(), "rhs_calls": len(p.rec.ode_calls), "callbacks": len(p.rec.callbacks), "outcome": st or p.outcome[1],
                                   "events": [e for e in p.events][:4]})
        pre = prefix(backward, True)[0] + prefix(backward, False)[0]
        for p in pre:
            w = p.w
            if p.outcome[0] == "panic":
                ob.failed.append((f"BDF: panic before the main loop: {p.outcome[1]}", p.label(), {}, {}))
                continue
            for j, (t, args, outs) in enumerate(p.rec.ode_calls):
                ob.check(p, w.in_span(t.t), "BDF: right-hand side evaluated outside [x0,xend] before the first step")
            if p.rec.callbacks:
                cb = p.rec.callbacks[0]
                ob.check(p, z3.And(cb["xold"].t == w.x0.t, cb["x"].t == w.x0.t), "BDF: initial callback is not at xold == x == x0")
                ob.check(p, isinstance(cb["interp"], REnum) and cb["interp"].name == "None", "BDF: initial callback carries an interpolant")
            if p.head is not None:
                ob.check(p, p.head["evals"].f["ode"] == len(p.rec.ode_calls), f"BDF: at the first loop head evals.ode = {p.head['evals'].f['ode']} after {len(p.rec.ode_calls)} right-hand-side calls")
                ob.check(p, p.head["evals"].f["jac"] == len(p.rec.jac_calls), "BDF: at the first loop head evals.jac differs from the Jacobian calls made")
                ob.check(p, p.head["current_h"].t > 0, "BDF: initial step not positive")
                if w.h0 is not None:
                    ob.check(p, p.head["current_h"].t == w.h0.t, "BDF: first trial step is not first_step")
                else:
                    ob.check(p, p.head["current_h"].t <= zabs(w.xend.t - w.x0.t) * (1 + qv(4 * EPS)), "BDF: automatic first step longer than the interval")
        ob.paths += len(pre)
        return ob.result(t0, {"functions": ["BDF::solve (prefix + one main-loop iteration)"],
                              "bounds": f"n=1; newton_maxiter=1; order in 1..5; {len(ps)} body paths + {len(pre)} prefix paths; LU success/failure nondeterministic; change_d/weighted_rms_scaled abstracted (data only); progress fact only for loop heads >= 64 ulp away from xend",
                              "path_generation_s": round(gen_s, 1)},
                         replay_fn=lambda f: replay.bdf_replay(backward, f))

    unit.__name__ = "bdf_iteration" + ("_back" if backward else "")
    return unit


def bdf_protocol(backward=False):
    def unit(tier="quick", seed=0):
        t0 = time.time()
        ob = Ob("bdf_protocol" + ("_back" if backward else ""))
        ps, gen_s = paths(backward, True)
        ob.paths = len(ps)
        for p in ps:
            w = p.w
            if p.outcome[0] == "panic":
                ob.failed.append((f"BDF: panic inside the main loop: {p.outcome[1]}", p.label(), {}, path_script(p)))
                continue
            flags = [e for e in p.events if e[0] == "flag"]
            st = S.status_of(p.outcome)
            ob.check(p, len(p.rec.callbacks) <= 1 and len(flags) == len(p.rec.callbacks), "BDF: callback count and returned flags disagree")
            if not p.rec.callbacks:
                ob.check(p, st != "UserInterrupt", "BDF: UserInterrupt without a callback")
                continue
            cb = p.rec.callbacks[0]
            fl = flags[0][2]
            calls_after = p.rec.ode_calls[cb["n_ode"]:]
            jac_after = p.rec.jac_calls[cb["n_jac"]:]
            if fl == "Interrupt":
                ob.check(p, st == "UserInterrupt", f"BDF: Interrupt did not end the run with UserInterrupt (got {st or 'continue'})")
                ob.check(p, not calls_after and not jac_after, "BDF: right-hand side / Jacobian evaluated after Interrupt")
            elif fl == "ModifiedSolution":
                ob.check(p, len(calls_after) >= 1, "BDF: ModifiedSolution not followed by a derivative re-evaluation")
                if calls_after:
                    t, args, outs = calls_after[0]
                    ob.check(p, t.t.eq(cb["x"].t), "BDF: after ModifiedSolution the derivative is not re-evaluated at the callback's x")
                    ob.check(p, all(a is b for a, b in zip(args, cb["y_after"])), "BDF: after ModifiedSolution the derivative is not re-evaluated at the written state")
                    ob.check(p, len(jac_after) >= 1 and jac_after[0][0].t.eq(cb["x"].t) and all(a is b for a, b in zip(jac_after[0][1], cb["y_after"])),
                             "BDF: after ModifiedSolution the Jacobian is not refreshed at (x, written state)")
                    if st is None and p.after is not None:
                        # history restart: d[0] = written state, d[1] = h * f(x, y) along the direction of integration
                        d = p.after["d"].items()
                        ob.check(p, d[0].items()[0] is cb["y_after"][0], "BDF: history restart does not start from the written state")
                        d1 = d[1].items()[0]
                        f0 = outs[0]
                        sgn = z3.And(z3.Implies(z3.And(f0.t > 0, p.after["current_h"].t > 0), w.d(d1.t) > 0),
                                     z3.Implies(z3.And(f0.t < 0, p.after["current_h"].t > 0), w.d(d1.t) < 0))
                        ob.check(p, sgn, "BDF: after ModifiedSolution the first difference d[1] does not point along h*f in the direction of integration")
                        ob.check(p, p.after["order"] == 1, "BDF: history restart does not reset the order to 1")
            else:
                ob.check(p, not calls_after, f"BDF: unexpected right-hand-side evaluation after a {fl} callback")
            if st == "UserInterrupt":
                ob.check(p, fl == "Interrupt", "BDF: UserInterrupt without an Interrupt flag")
            if len(ob.samples) < 3:
                ob.samples.append({"path": p.label(), "flag": fl, "outcome": st or p.outcome[1]})
        pre, _ = prefix(backward, True)
        for p in pre:
            flags = [e for e in p.events if e[0] == "flag"]
            st = S.status_of(p.outcome)
            if not p.rec.callbacks:
                continue
            cb = p.rec.callbacks[0]
            fl = flags[0][2] if flags else "Continue"
            calls_after = p.rec.ode_calls[cb["n_ode"]:]
            if fl == "Interrupt":
                ob.check(p, st == "UserInterrupt" and not calls_after, "BDF: Interrupt at the initial callback did not stop immediately")
            elif fl == "ModifiedSolution":
                ok = len(calls_after) >= 1 and all(a is b for a, b in zip(calls_after[0][1], cb["y_after"])) and calls_after[0][0].t.eq(cb["x"].t)
                ob.check(p, ok, "BDF: ModifiedSolution at the initial callback: derivative not re-evaluated at (x0, written state)")
        ob.paths += len(pre)
        return ob.result(t0, {"functions": ["BDF::solve with an adversarial SolOut"], "bounds": f"n=1; newton_maxiter=1; {len(ps)} body paths + {len(pre)} prefix paths",
                              "path_generation_s": round(gen_s, 1)},
                         replay_fn=lambda f: replay.bdf_replay(backward, f))

    unit.__name__ = "bdf_protocol" + ("_back" if backward else "")
    return unit


def bdf_interp_span(backward=False):
    """C06 for BDF: the interpolant of an accepted step starts bit-for-bit at the step's start and the reported x IS
    fl(x_start + h) of the interpolant's own (x_start, h): the stored dense segment ends exactly at the reported time."""

    def unit(tier="quick", seed=0):
        t0 = time.time()
        ob = Ob("c06_interp_span_bdf" + ("_back" if backward else ""))
        ps, gen_s = paths(backward, False)
        ob.paths = len(ps)
        n_ip = 0
        for p in ps:
            for cb in p.rec.callbacks:
                ip = cb["interp"]
                if not (isinstance(ip, REnum) and ip.name == "Some"):
                    ob.check(p, False, "BDF: accepted step handed to the callback without an interpolant")
                    continue
                n_ip += 1
                f = ip.payload[0].f
                ob.check(p, f["xold"].t.eq(p.head["x"].t), "BDF: interpolant's left end is not the step's start (bit-for-bit)")
                want = f["xold"].t + f["h"].t
                ok = any(r.eq(cb["x"].t) and e.eq(want) for (r, e) in p.dom.rounded)
                ob.check(p, ok, "BDF: the reported x is not fl(xold + h) of its interpolant: the dense span end and the reported time can differ by a rounding error")
                if len(ob.samples) < 2:
                    ob.samples.append({"path": p.label(), "x": str(cb["x"].t), "interp": [str(f["xold"].t), str(f["h"].t)]})
        ob.check(ps[0], n_ip > 0, "BDF: no path hands an interpolant to the callback")
        return ob.result(t0, {"functions": ["BDF::solve accepted-step tail"], "bounds": f"{len(ps)} body paths (newton_maxiter=1); term identity (bit-for-bit) facts",
                              "path_generation_s": round(gen_s, 1)},
                         replay_fn=lambda fl: replay.bdf_span_replay(backward))

    unit.__name__ = "c06_interp_span_bdf" + ("_back" if backward else "")
    return unit
