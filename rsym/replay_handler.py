"""Native confirmation of output-handler violations found by engine R.

The failing path's scenario (step boundaries, requested times, first_step from the solver
model; event configuration, end-point values and dense flag from the path) is replayed on the
REAL DefaultSolOut (through the verif-hooks SolOutProbe, release build, `probe handler`), and
the facts are re-judged on the concrete payload."""
from fractions import Fraction

from . import replay

TOL = 1e-12
EPS = 2.0 ** -52


def _num(s):
    s = str(s)
    if "/" in s:
        a, b = s.split("/")
        return float(Fraction(int(a), int(b)))
    return float(Fraction(s)) if s not in ("None",) else None


def _f(v):
    return float(v)


def crossing_spec(direction, left, right):
    if direction == "All":
        must = (left < 0 < right) or (left > 0 > right)
        may = must or left == 0 or right == 0
    elif direction == "Positive":
        must = left < 0 < right
        may = must or (left < 0 and right == 0) or (left == 0 and right > 0) or (left == 0 and right == 0)
    else:
        must = left > 0 > right
        may = must or (left > 0 and right == 0) or (left == 0 and right < 0) or (left == 0 and right == 0)
    return must, may


def scenario_from(ce):
    model, sc = ce["model"], ce["script"]
    n = sc["n_steps"]
    xs = []
    for k in range(n + 1):
        if f"x{k}" not in model:
            return None
        xs.append(_num(model[f"x{k}"]))
    te = None
    if sc.get("n_teval"):
        te = []
        for i in range(sc["n_teval"]):
            if f"te{i}" not in model:
                return None
            te.append(_num(model[f"te{i}"]))
    fs = _num(model["first_step"]) if sc.get("has_first_step") and "first_step" in model else None
    if sc.get("has_first_step") and fs is None:
        return None
    return {"xs": xs, "te": te, "fs": fs, "dense": sc.get("dense"), "configs": sc["configs"],
            "values": [[float(Fraction(v)) for v in row] for row in sc["event_values"]], "backward": sc["backward"]}


def run(s, dense):
    cfg = "none" if not s["configs"] else ",".join(f"{d[0]}:{0 if tc is None else tc}" for d, tc in s["configs"])
    vals = "none" if not s["configs"] else ";".join(",".join(repr(v) for v in row) for row in _pad(s))
    return replay.probe(["handler", ",".join(repr(x) for x in s["xs"]), "none" if s["te"] is None else ",".join(repr(t) for t in s["te"]),
                         "none" if s["fs"] is None else repr(s["fs"]), "1" if dense else "0", cfg, vals])


def _pad(s):
    rows = list(s["values"])
    nf = len(s["configs"])
    while len(rows) < len(s["xs"]):
        rows.append([1.0] * nf)
    return rows


def judge(s, d):
    """Concrete re-statement of the handler facts; returns a list of violated fact descriptions."""
    out = []
    xs, te, fs = s["xs"], s["te"], s["fs"]
    dirn = -1.0 if s["backward"] else 1.0
    t = [_f(v) for v in d["t"]]
    y = [_f(v) for v in d["y"]]
    flags = d["flags"]
    ncalls = len(flags)
    stop = flags[-1] == "Interrupt"
    vals = _pad(s)
    tev = [[_f(v) for v in r] for r in d["t_events"]]
    yev = [[_f(v) for v in r] for r in d["y_events"]]
    if not all(d["intact"]):
        out.append("the output handler modified x or y of the solver")
    if len(t) != len(y):
        out.append("t and y have different lengths")
    bad_flags = [f for f in flags[:-1] if f != "Continue"] + ([] if stop or flags[-1] == "Continue" else [flags[-1]])
    if bad_flags:
        out.append("the handler returned a flag other than Continue")
    tterm = None
    for i, (dd, tc) in enumerate(s["configs"]):
        if tc is not None and len(tev[i]) >= tc:
            tterm = tev[i][tc - 1]
    if stop and tterm is None:
        out.append("Interrupt returned although no terminal event reached its count")
    if not stop and tterm is not None:
        out.append("a terminal event reached its count but the handler did not return Interrupt")
    if te is not None:
        if not stop:
            if t != te:
                out.append(f"t_eval: a completed run reports {t} for the requested {te}")
        else:
            if not t or tterm is None or t[-1] != tterm:
                out.append("t_eval + terminal event: the last reported sample is not the event point")
            body = t[:-1]
            if body != te[:len(body)]:
                out.append("t_eval + terminal event: reported times are not a prefix of the requested ones")
            if tterm is not None:
                sl = TOL * (1 + 4 * EPS) + 4 * EPS * abs(tterm)
                for i, tv in enumerate(te):
                    if i < len(body) and (tv - tterm) * dirn > sl:
                        out.append("t_eval + terminal event: a requested time beyond the event is reported")
                    if i >= len(body) and (tv - tterm) * dirn < -sl:
                        out.append("t_eval + terminal event: a requested time not beyond the event is missing")
        for tv, yv in zip(t, y):
            if yv != tv and not (abs(tv - xs[0]) <= TOL * (1 + 4 * EPS) and yv == xs[0]):
                out.append("t_eval: a reported value is not the interpolant at its reported time")
                break
    elif not s["configs"] or True:
        if te is None:
            body = t[:-1] if stop else t
            if not body or body[0] != xs[0]:
                out.append("without t_eval the first reported time is not x0")
            for a, b in zip(t, t[1:]):
                if not (b - a) * dirn > 0 and not (stop and b == t[-1] and (b - a) * dirn >= 0):
                    out.append("reported times are not strictly monotone toward xend")
                    break
            for tv, yv in zip(t, y):
                if yv != tv:
                    out.append("a reported state does not belong to its reported time")
                    break
            if not stop:
                lastx = xs[ncalls - 1]
                if abs(t[-1] - lastx) > TOL * (1 + 4 * EPS) + 4 * EPS * abs(lastx):
                    out.append("the last reported time is not the end of the last accepted step (to the handler's 1e-12)")
                if fs is None and body != xs[:ncalls]:
                    out.append("without first_step every accepted step end is reported exactly once")
            elif fs is None and body != xs[:ncalls - 1]:
                out.append("with events the accepted step ends are not all reported (before the stop)")
    # events
    counts = [[0] * len(s["configs"]) for _ in range(ncalls)]
    for i, (dd, tc) in enumerate(s["configs"]):
        if len(tev[i]) != len(yev[i]):
            out.append("t_events and y_events have different shapes")
        for a, b in zip(tev[i], yev[i]):
            if a != b:
                out.append("an event's recorded state is not the interpolant/state at the event time")
                break
        for tv in tev[i]:
            for k in range(min(ncalls, len(xs))):
                if tv == xs[k] and abs(vals[k][i]) > 2e-12:
                    out.append(f"an event is recorded at the step end point {tv!r} where its event function is {vals[k][i]!r}, not (numerically) zero")
        for a, b in zip(tev[i], tev[i][1:]):
            if (b - a) * dirn < 0:
                out.append("events of one function are not in the order of integration")
                break
        # attribute events to steps by position (each lies inside its step; events are in order)
        idx = 0
        for k in range(1, ncalls):
            left, right = vals[k - 1][i], vals[k][i]
            must, may = crossing_spec(dd, left, right)
            lo, hi = min(xs[k - 1], xs[k]), max(xs[k - 1], xs[k])
            n_here = 0
            stopped_here = stop and k == ncalls - 1
            while idx < len(tev[i]) and n_here < (1 if (must or may) else 0) and lo <= tev[i][idx] <= hi:
                # an exact zero at a shared end point may belong to either step: consume greedily when this step may report
                n_here += 1
                idx += 1
            if must and not stopped_here and n_here != 1:
                out.append(f"strictly opposite signs ({dd}) but {n_here} events recorded in that step")
            if tterm is not None:
                for tv in tev[i]:
                    if (tv - tterm) * dirn > 0:
                        out.append("an event later than the terminal event is reported")
                        break
        if idx < len(tev[i]) and not stop:
            out.append("no sign change in the configured direction but an event was recorded (or an event lies outside its step)")
    if stop and tterm is not None and (not t or t[-1] != tterm or y[-1] != tterm):
        out.append("the final sample after a terminal event is not the event point")
    return out


def kind_of(text):
    t = text.lower()
    if "segment" in t or "dense output" in t:
        return "dense"
    if "t_eval" in t or "requested" in t:
        return "teval"
    if "event" in t or "interrupt" in t or "terminal" in t or "sign" in t:
        return "events"
    if "modified x or y" in t or "flag other than continue" in t or "dense on/off" in t or "differ between dense" in t:
        return "noninterference"
    return "samples"


def confirm(failed):
    """failed: list of (description, path label, model excerpt, script) from Ob.failed."""
    log = []
    tried = 0
    for desc, label, model, sc in failed[:12]:
        if not isinstance(sc, dict) or "n_steps" not in sc:
            continue
        s = scenario_from({"model": model, "script": sc})
        if s is None:
            log.append(f"path {label}: the solver model does not fix every input -> not replayable")
            continue
        denses = [s["dense"]] if isinstance(s["dense"], bool) else [False, True]
        results = []
        for dn in denses:
            try:
                d = run(s, dn)
            except Exception as e:
                log.append(f"probe failed: {str(e)[:200]}")
                continue
            tried += 1
            results.append((dn, d))
            bad = judge(s, d)
            if dn and "dense_segs" in d and d["dense_segs"] != len(d["flags"]) - 1:
                bad.append(f"dense output: {d['dense_segs']} segments stored for {len(d['flags']) - 1} accepted steps")
            # only a native violation of the same kind as the solver's confirms it; the handler's known limitation for
            # steps shorter than its absolute 1e-12 slack (sample facts) is outside every claim
            want = {kind_of(desc)}
            tiny = any(abs(b - a) <= 4e-12 for a, b in zip(s["xs"], s["xs"][1:]))
            bad = [b for b in bad if kind_of(b) in want and not (tiny and kind_of(b) in ("samples", "teval", "events"))]
            if bad:
                src = (f"probe handler  xs={s['xs']} t_eval={s['te']} first_step={s['fs']} dense={dn} configs={s['configs']} "
                       f"end-point values={s['values']}   (real DefaultSolOut via verif-hooks SolOutProbe)")
                log.append(f"R: {desc}")
                log.append(f"native: {bad[:3]}")
                log.append(f"payload: t={d['t']} t_events={d['t_events']} flags={d['flags']}")
                return True, src, "\n".join(log)
        if len(results) == 2 and kind_of(desc) in ("noninterference", "teval", "samples") and (results[0][1]["t"] != results[1][1]["t"] or results[0][1]["y"] != results[1][1]["y"]):
            log.append("native: reported (t, y) differ between dense on/off")
            return True, "probe handler (dense on vs off)", "\n".join(log)
    log.append(f"{tried} native replays of the failing paths: no native violation")
    return None, "probe handler", "\n".join(log)
