"""R units for the stepper control facts (C03, C04, C11, C18, C19): obligations over every
feasible path through one main-loop iteration from an arbitrary loop-head state (Round domain),
plus the paths of the prefix of solve(). Each obligation is a z3 query `path & !fact` that must
be unsat."""
import time
from fractions import Fraction

import z3

from . import stepper as S
from . import replay
from .interp import REnum, RStruct, SInt, Unsupported, RVec
from .stepper import qv, zabs, EPS

_cache = {}


def paths_for(method, kind, backward, with_max_step, **kw):
    if method == "RK4":
        with_max_step = False  # RK4 has no max_step option
    key = (method, kind, backward, with_max_step, tuple(sorted(kw.items())))
    if key not in _cache:
        t0 = time.time()
        inv = INV[method][0]
        if kind == "body":
            ps = S.body_paths(method, backward=backward, with_max_step=with_max_step, inv=inv, **kw)
        else:
            ps = S.prefix_paths(method, backward=backward, with_max_step=with_max_step, **kw)
        _cache[key] = (ps, time.time() - t0)
    return _cache[key]


INV = {
    "DOPRI5": (S.inv_dopri, S.inv_holds_dopri),
    "DOP853": (S.inv_dopri, S.inv_holds_dopri),
    "RK23": (S.inv_rk23, S.inv_holds_rk23),
    "RK4": (S.inv_rk4, S.inv_holds_rk4),
}

STAGES = {"RK4": 4, "RK23": 3, "DOPRI5": 6, "DOP853": 11}


class Ob:
    """Obligation bookkeeping for one unit."""

    def __init__(self, name):
        self.name = name
        self.n = 0
        self.ok = 0
        self.failed = []      # (description, path label, model excerpt)
        self.unknown = []
        self.solver_s = 0.0
        self.samples = []
        self.paths = 0
        self.slow = []

    def check(self, p, fact, desc):
        self.n += 1
        t0 = time.time()
        r = p.holds(fact)
        dt = time.time() - t0
        self.solver_s += dt
        if dt > 2.0:
            self.slow.append((round(dt, 1), desc[:70], p.label()))
        if r is True:
            self.ok += 1
            return True
        if r is False:
            m = getattr(p, "last_model", None)
            ex = {}
            if m is not None:
                for d in m.decls():
                    nm = d.name()
                    if nm in ("x0", "xend", "h0", "max_step", "first_step") or nm.startswith(("lh_", "te")) or (nm[0] in "xh" and nm[1:].isdigit()) or nm == "t":
                        v = m[d]
                        ex[nm] = f"{v.numerator_as_long()}/{v.denominator_as_long()}" if z3.is_rational_value(v) else str(v)[:200]
            self.failed.append((desc, p.label(), ex, p.script() if hasattr(p, "script") else path_script(p)))
            return False
        self.unknown.append(desc + " [path " + p.label() + "]")
        return None

    def result(self, t0, extra=None, replay_fn=None):
        r = {"name": self.name, "wall_s": round(time.time() - t0, 2), "solver_s": round(self.solver_s, 2), "slow_queries": sorted(self.slow, reverse=True)[:8],
             "obligations": self.n, "discharged": self.ok, "queries": {"total": self.n, "paths": self.paths},
             "nontrivial": 1 if self.n > 0 else 0, "sample": self.samples[0] if self.samples else None}
        if self.failed:
            r["verdict"] = "fail"
            # de-duplicate by description
            seen = []
            for d, lab, ex, scr in self.failed:
                if d not in seen:
                    seen.append(d)
            r["failed"] = seen
            r["counterexamples"] = [{"fact": d, "path": lab, "model": ex, "script": scr} for d, lab, ex, scr in self.failed[:6]]
            rep = replay_fn(self.failed) if replay_fn else (None, "", "")
            r["replayed"], r["replay_src"], r["replay_log"] = rep
        elif self.unknown:
            r["verdict"] = "inconclusive"
            r["reason"] = "solver unknown: " + "; ".join(self.unknown[:3])
        else:
            r["verdict"] = "pass"
        if extra:
            r.update(extra)
        return r


def path_script(p):
    """Accept/reject pattern and callback flags of a body path, for the scripted native replay."""
    if not hasattr(p, "events") or not hasattr(p, "rec"):
        return {}
    flags = "".join({"Continue": "C", "Interrupt": "I", "ModifiedSolution": "M", "XOut": "X"}[e[2]] for e in p.events if e[0] == "flag")
    return {"accepted": len(p.rec.callbacks) > 0, "flags": flags, "status": S.status_of(p.outcome), "exit": getattr(p, "exit", None),
            "odes": len(p.rec.ode_calls)}


def _delta(a, b):
    """b - a for symbolic counters with the same base (None if not comparable)."""
    if isinstance(a, SInt) and isinstance(b, SInt) and a.base == b.base:
        return b.off - a.off
    if isinstance(a, int) and isinstance(b, int):
        return b - a
    return None


def _final_struct(p, name):
    """Value of a loop-carried struct (steps / evals) at the end of the path."""
    res = S.result_of(p.outcome) if p.outcome[0] == "return" else None
    if res is not None and name in res.f:
        return res.f[name]
    snap = p.after if p.after is not None else None
    if snap is not None and name in snap:
        return snap[name]
    return None


# ============================================================================== C18 counters
def c18_counters(method, backward=False):
    def unit(tier="quick", seed=0):
        t0 = time.time()
        ob = Ob(f"c18_counters_{method.lower()}" + ("_back" if backward else ""))
        paths, gen_s = paths_for(method, "body", backward, True)      # callback flags symbolic: the counters must be right on the Interrupt / ModifiedSolution exits too
        ob.paths = len(paths)
        for p in paths:
            if p.outcome[0] == "panic":
                ob.failed.append((f"{method}: panic inside the main loop: {p.outcome[1]}", p.label(), {}, path_script(p)))
                continue
            ev0, st0 = p.head["evals"], p.head["steps"]
            ev1, st1 = _final_struct(p, "evals"), _final_struct(p, "steps")
            if ev1 is None or st1 is None:
                raise Unsupported("evals/steps not found at the end of the iteration")
            d_ode = _delta(ev0.f["ode"], ev1.f["ode"])
            d_jac = _delta(ev0.f["jac"], ev1.f["jac"])
            d_acc = _delta(st0.f["accepted"], st1.f["accepted"])
            d_tot = _delta(st0.f["total"], st1.f["total"])
            n_ode, n_jac, n_cb = len(p.rec.ode_calls), len(p.rec.jac_calls), len(p.rec.callbacks)
            ob.check(p, d_ode == n_ode, f"{method}: evals.ode advanced by {d_ode} in an iteration that made {n_ode} right-hand-side calls")
            ob.check(p, d_jac == n_jac, f"{method}: evals.jac advanced by {d_jac} in an iteration that made {n_jac} Jacobian calls")
            ob.check(p, d_acc == n_cb, f"{method}: steps.accepted advanced by {d_acc} in an iteration with {n_cb} callbacks (exit: {S.status_of(p.outcome) or 'continue'})")
            ob.check(p, d_tot is not None and d_acc is not None and d_tot >= d_acc, f"{method}: steps.total advanced by {d_tot} < accepted {d_acc}")
            if len(ob.samples) < 3:
                ob.samples.append({"path": p.label(), "rhs_calls": n_ode, "callbacks": n_cb, "d_evals.ode": d_ode, "d_steps.accepted": d_acc,
                                   "d_steps.total": d_tot, "outcome": S.status_of(p.outcome) or p.outcome[1]})
        # prefix: counters equal what happened before the loop
        pre, _ = paths_for(method, "prefix", backward, True)
        for p in pre:
            if p.head is None:
                continue
            ev, st = p.head["evals"], p.head["steps"]
            ob.check(p, ev.f["ode"] == len(p.rec.ode_calls), f"{method}: at the first loop head evals.ode = {ev.f['ode']} after {len(p.rec.ode_calls)} right-hand-side calls")
            ob.check(p, st.f["accepted"] == 0 and st.f["total"] == 0, f"{method}: step counters not zero at the first loop head")
        ob.paths += len(pre)
        return ob.result(t0, {"functions": [f"{method}::solve main loop (one iteration, arbitrary loop-head state)", f"{method}::solve prefix"],
                              "bounds": f"n=1; {len(paths)} body paths + {len(pre)} prefix paths; counters symbolic (inductive step: holds for every iteration)",
                              "path_generation_s": round(gen_s, 1)},
                         replay_fn=lambda f: replay.script_replay(method, backward, f, "counters"))

    unit.__name__ = f"c18_counters_{method.lower()}" + ("_back" if backward else "")
    return unit


# ============================================================================== C03 / C11 / C04 time facts
def c03_times(method, backward=False, with_max_step=True):
    """Interval discipline of one iteration + invariant preservation + status facts."""

    def unit(tier="quick", seed=0):
        t0 = time.time()
        nm = f"c03_times_{method.lower()}" + ("_back" if backward else "") + ("" if with_max_step else "_nomax")
        ob = Ob(nm)
        paths, gen_s = paths_for(method, "body", backward, with_max_step, flags_symbolic=False)
        ob.paths = len(paths)
        inv_facts = INV[method][1]
        for p in paths:
            w = p.w
            if p.outcome[0] == "panic":
                ob.failed.append((f"{method}: panic inside the main loop: {p.outcome[1]}", p.label(), {}, path_script(p)))
                continue
            xh, hh = p.head["x"], p.head["h"]
            for j, (t, args, outs) in enumerate(p.rec.ode_calls):
                ob.check(p, w.in_span(t.t), f"{method}: right-hand side evaluated outside [x0,xend] (+-4ulp) (call {j + 1} of the iteration)")
            for (t, _) in p.rec.jac_calls:
                ob.check(p, w.in_span(t.t), f"{method}: Jacobian evaluated outside [x0,xend] (+-4ulp)")
            for cb in p.rec.callbacks:
                ob.check(p, cb["xold"].t == xh.t, f"{method}: callback xold is not the previous x")
                ob.check(p, w.in_span(cb["x"].t), f"{method}: callback time outside [x0,xend] (+-4ulp)")
                far = w.d(w.xend.t - xh.t) > w.slack
                ob.check(p, z3.Implies(far, w.d(cb["x"].t - cb["xold"].t) > 0), f"{method}: accepted step does not move toward xend")
                if w.hmax is not None:
                    lands = zabs(cb["x"].t - w.xend.t) <= w.slack
                    lim = z3.If(lands, qv(Fraction(101, 100)) * w.hmax.t * (1 + qv(8 * EPS)), w.hmax.t)
                    # the observed interval x - xold carries the rounding of x + h (absolute, ~ulp(x)): + slack
                    ob.check(p, zabs(cb["x"].t - cb["xold"].t) <= lim * (1 + qv(4 * EPS)) + w.slack, f"{method}: accepted step longer than max_step")
                ip = cb["interp"]
                if isinstance(ip, REnum) and ip.name == "Some":
                    f = ip.payload[0].f
                    ob.check(p, z3.And(f["xold"].t == cb["xold"].t, zabs(f["xold"].t + f["h"].t - cb["x"].t) <= w.slack),
                             f"{method}: interpolant does not span the accepted step")
            st = S.status_of(p.outcome)
            interrupted = any(e[0] == "flag" and e[2] == "Interrupt" for e in p.events)
            if st == "Success":
                lastx = p.rec.callbacks[-1]["x"] if p.rec.callbacks else xh
                ob.check(p, zabs(lastx.t - w.xend.t) <= w.slack, f"{method}: Success reported before reaching xend")
                ob.check(p, len(p.rec.callbacks) > 0 or False, f"{method}: Success without an accepted step in the final iteration")
            if st is not None:
                ob.check(p, (st == "UserInterrupt") == interrupted, f"{method}: status UserInterrupt does not match the callback's Interrupt")
            if st is None and p.exit == "continue":
                # the loop continues: the invariant must hold again
                for desc, fact in inv_facts(p, p.after).items():
                    ob.check(p, fact, f"{method}: loop-head invariant not preserved: {desc}")
                # a rejected trial strictly shrinks the step (C04)
                if not p.rec.callbacks and p.rec.ode_calls:
                    ob.check(p, zabs(p.after["h"].t) <= qv(Fraction(95, 100)) * zabs(hh.t) * (1 + qv(8 * EPS)),
                             f"{method}: a rejected trial does not shrink the step by at least 5%")
                # the step after an accepted step that follows a rejection is not longer than that step (DOPRI family's
                # "prevent oscillations" rule; 1% more only when it is stretched to land on xend) -- in BOTH directions
                rj = p.head.get("reject") if isinstance(p.head, dict) else None
                if p.rec.callbacks and rj is not None and z3.is_expr(rj) and z3.is_bool(rj):
                    ob.check(p, z3.Implies(rj, zabs(p.after["h"].t) <= qv(Fraction(101, 100)) * zabs(hh.t) * (1 + qv(8 * EPS))),
                             f"{method}: after a rejection the next accepted step is followed by a LONGER step (the anti-oscillation rule is direction dependent)")
            if len(ob.samples) < 3:
                ob.samples.append({"path": p.label(), "rhs_calls": len(p.rec.ode_calls), "callbacks": len(p.rec.callbacks),
                                   "outcome": st or p.outcome[1], "symbolic": "x0,xend,max_step,lh_x,lh_h,lh_facold,..."})
        return ob.result(t0, {"functions": [f"{method}::solve main loop"],
                              "bounds": f"n=1; {len(paths)} feasible paths through one iteration from an arbitrary loop-head state satisfying the invariant; reals with relative rounding error 2^-53 per float op; |x0|,|xend| <= 2^300; no NaN/overflow",
                              "path_generation_s": round(gen_s, 1)},
                         replay_fn=lambda f: replay.script_replay(method, backward, f, "times"))

    unit.__name__ = f"c03_times_{method.lower()}" + ("_back" if backward else "") + ("" if with_max_step else "_nomax")
    return unit


def c03_prefix(method, backward=False, with_max_step=True, with_first_step=True):
    """The prefix of solve() establishes the loop-head invariant; initial callback facts."""

    def unit(tier="quick", seed=0):
        t0 = time.time()
        nm = f"c03_prefix_{method.lower()}" + ("_back" if backward else "") + ("" if with_first_step else "_autoh")
        ob = Ob(nm)
        paths, gen_s = paths_for(method, "prefix", backward, with_max_step, with_first_step=with_first_step)
        ob.paths = len(paths)
        inv_facts = INV[method][1]
        for p in paths:
            w = p.w
            if p.outcome[0] == "panic":
                ob.failed.append((f"{method}: panic before the main loop: {p.outcome[1]}", p.label(), {}, {}))
                continue
            for j, (t, args, outs) in enumerate(p.rec.ode_calls):
                ob.check(p, w.in_span(t.t), f"{method}: right-hand side evaluated outside [x0,xend] before the first step (call {j + 1})")
            if p.rec.ode_calls:
                t, args, _ = p.rec.ode_calls[0]
                ob.check(p, t.t == w.x0.t, f"{method}: first right-hand-side evaluation is not at x0")
            if p.rec.callbacks:
                cb = p.rec.callbacks[0]
                ob.check(p, z3.And(cb["xold"].t == w.x0.t, cb["x"].t == w.x0.t), f"{method}: initial callback is not at xold == x == x0")
                ob.check(p, isinstance(cb["interp"], REnum) and cb["interp"].name == "None", f"{method}: initial callback carries an interpolant")
                ob.check(p, all(a is b for a, b in zip(cb["y"], p.y0.items())), f"{method}: initial callback does not carry y0")
            st = S.status_of(p.outcome)
            interrupted = any(e[0] == "flag" and e[2] == "Interrupt" for e in p.events)
            if st is not None and st != "Err":
                ob.check(p, (st == "UserInterrupt") == interrupted, f"{method}: early return status does not match the callback's flag")
                if interrupted:
                    k = [i for i, e in enumerate(p.events) if e[0] == "flag" and e[2] == "Interrupt"][0]
            if p.head is not None:
                if with_first_step and method != "RK4":
                    h = p.head["h"]
                    ob.check(p, w.d(h.t) == w.h0.t, f"{method}: first trial step is not first_step (signed toward xend)")
                for desc, fact in inv_facts(p, p.head).items():
                    ob.check(p, fact, f"{method}: loop-head invariant not established by the prefix: {desc}")
                # ModifiedSolution at the initial callback: derivative re-evaluated at (x0, y_written)
                mods = [e for e in p.events if e[0] == "flag" and e[2] == "ModifiedSolution"]
                if mods:
                    t, args, _ = p.rec.ode_calls[-1]
                    ywritten = p.rec.callbacks[0]["y"]
                    ob.check(p, t.t == w.x0.t and False or (t.t == w.x0.t), f"{method}: after ModifiedSolution the derivative is not re-evaluated at x")
            if len(ob.samples) < 2:
                ob.samples.append({"path": p.label(), "rhs_calls": len(p.rec.ode_calls), "callbacks": len(p.rec.callbacks), "outcome": st or p.outcome[1]})
        return ob.result(t0, {"functions": [f"{method}::solve prefix (validation, initial evaluation, hinit, initial callback)"],
                              "bounds": f"n=1; {len(paths)} feasible prefix paths; callback flag nondeterministic", "path_generation_s": round(gen_s, 1)},
                         replay_fn=lambda f: replay.script_replay(method, backward, f, "prefix"))

    unit.__name__ = f"c03_prefix_{method.lower()}" + ("_back" if backward else "") + ("" if with_first_step else "_autoh")
    return unit


# ============================================================================== C19 protocol
def c19_protocol(method, backward=False):
    """Callback protocol of one iteration with an adversarial callback (nondeterministic flag,
    fresh state written on ModifiedSolution)."""

    def unit(tier="quick", seed=0):
        t0 = time.time()
        ob = Ob(f"c19_protocol_{method.lower()}" + ("_back" if backward else ""))
        paths, gen_s = paths_for(method, "body", backward, True)
        ob.paths = len(paths)
        for p in paths:
            w = p.w
            if p.outcome[0] == "panic":
                ob.failed.append((f"{method}: panic inside the main loop: {p.outcome[1]}", p.label(), {}, path_script(p)))
                continue
            flags = [e for e in p.events if e[0] == "flag"]
            st = S.status_of(p.outcome)
            ob.check(p, len(p.rec.callbacks) <= 1, f"{method}: more than one callback in one loop iteration")
            ob.check(p, len(flags) == len(p.rec.callbacks), f"{method}: callback count and returned flags disagree")
            if p.rec.callbacks:
                cb = p.rec.callbacks[0]
                n_before = cb.get("odes_before")
                fl = flags[0][2]
                xh = p.head["x"]
                ob.check(p, cb["xold"].t == xh.t, f"{method}: callback xold is not the previous x")
                calls_after = p.rec.ode_calls[cb["n_ode"]:]
                jac_after = p.rec.jac_calls[cb["n_jac"]:]
                if fl == "Interrupt":
                    ob.check(p, st == "UserInterrupt", f"{method}: Interrupt did not end the run with UserInterrupt (got {st or 'continue'})")
                    ob.check(p, not calls_after and not jac_after, f"{method}: right-hand side / Jacobian evaluated after Interrupt")
                elif fl == "ModifiedSolution":
                    ob.check(p, len(calls_after) >= 1, f"{method}: ModifiedSolution not followed by a derivative re-evaluation")
                    if calls_after:
                        t, args, _ = calls_after[0]
                        ob.check(p, t.t == cb["x"].t, f"{method}: after ModifiedSolution the derivative is not re-evaluated at the callback's x")
                        ob.check(p, all(a is b for a, b in zip(args, cb["y_after"])),
                                 f"{method}: after ModifiedSolution the derivative is not re-evaluated at the written state")
                        # ... and that derivative is what the next step starts from
                        k1 = _next_derivative(p)
                        if k1 is not None:
                            ob.check(p, all(a is b for a, b in zip(k1, calls_after[0][2])),
                                     f"{method}: the derivative re-evaluated after ModifiedSolution is not the one used by the next step")
                else:
                    ob.check(p, not calls_after and not jac_after, f"{method}: unexpected evaluation after a {fl} callback")
                    k1 = _next_derivative(p)
                    if k1 is not None and st is None:
                        # the next step's first derivative was evaluated at (x_new, y_new) (FSAL or fresh)
                        src = [c for c in p.rec.ode_calls if all(a is b for a, b in zip(c[2], k1))]
                        ob.check(p, len(src) == 1 and src[0][0].t == cb["x"].t and all(a is b for a, b in zip(src[0][1], cb["y"])),
                                 f"{method}: the derivative carried into the next step was not evaluated at the accepted (x, y)")
                if st == "UserInterrupt":
                    ob.check(p, fl == "Interrupt", f"{method}: UserInterrupt without an Interrupt flag")
            else:
                ob.check(p, st != "UserInterrupt", f"{method}: UserInterrupt without a callback")
            if len(ob.samples) < 3 and flags:
                ob.samples.append({"path": p.label(), "flag": flags[0][2], "outcome": st or p.outcome[1], "rhs_calls": len(p.rec.ode_calls)})
        pre, _ = paths_for(method, "prefix", backward, True)
        for p in pre:
            flags = [e for e in p.events if e[0] == "flag"]
            st = S.status_of(p.outcome)
            if not p.rec.callbacks:
                continue
            cb = p.rec.callbacks[0]
            fl = flags[0][2] if flags else "Continue"
            calls_after = p.rec.ode_calls[cb["n_ode"]:]
            if fl == "Interrupt":
                ob.check(p, st == "UserInterrupt" and not calls_after, f"{method}: Interrupt at the initial callback did not stop immediately")
            elif fl == "ModifiedSolution":
                ok = len(calls_after) >= 1 and all(a is b for a, b in zip(calls_after[0][1], cb["y_after"]))
                ob.check(p, ok, f"{method}: ModifiedSolution at the initial callback: derivative not re-evaluated at the written state")
                if calls_after:
                    ob.check(p, calls_after[0][0].t == cb["x"].t, f"{method}: ModifiedSolution at the initial callback: re-evaluation not at x0")
            else:
                ob.check(p, st != "UserInterrupt", f"{method}: UserInterrupt without Interrupt at the initial callback")
        ob.paths += len(pre)
        return ob.result(t0, {"functions": [f"{method}::solve main loop + prefix, adversarial SolOut"],
                              "bounds": f"n=1; {len(paths)} body paths (arbitrary loop-head state) + {len(pre)} prefix paths; flags Continue/Interrupt/ModifiedSolution/XOut nondeterministic",
                              "path_generation_s": round(gen_s, 1)},
                         replay_fn=lambda f: replay.script_replay(method, backward, f, "protocol"))

    unit.__name__ = f"c19_protocol_{method.lower()}" + ("_back" if backward else "")
    return unit


def _next_derivative(p):
    """The derivative vector the next iteration starts from (k1 / f0), if the loop continues."""
    if p.after is None:
        return None
    for name in ("k1", "f0"):
        if name in p.after and isinstance(p.after[name], RVec):
            return p.after[name].items()
    return None


# ============================================================================== C11 budget
def c11_budget(method, backward=False):
    """max_steps: the budget is only compared at the loop head; once the comparison fires the run
    ends with NeedLargerNMax without further evaluations or callbacks."""

    def unit(tier="quick", seed=0):
        t0 = time.time()
        ob = Ob(f"c11_budget_{method.lower()}" + ("_back" if backward else ""))
        paths, gen_s = paths_for(method, "body", backward, True, flags_symbolic=False)
        ob.paths = len(paths)
        n_budget = 0
        for p in paths:
            st = S.status_of(p.outcome)
            if st == "NeedLargerNMax":
                n_budget += 1
                ob.check(p, not p.rec.ode_calls and not p.rec.callbacks, f"{method}: evaluations or callbacks after the step budget was exhausted")
            # the budget comparison must be the first observation of nmax in the iteration, and the only one
            obs = [o for o in p.it.sint_observations[p.obs_start:] if "nmax" in o[1] or "nmax" in o[2]]
            ob.check(p, len(obs) <= 1, f"{method}: max_steps is read more than once per iteration")
            for o in obs:
                ob.check(p, "steps.total" in o[1] + o[2], f"{method}: max_steps is compared with {o[1]} / {o[2]}, not with the total step count")
        ob.check(paths[0], n_budget >= 1, f"{method}: no path ends with NeedLargerNMax")
        return ob.result(t0, {"functions": [f"{method}::solve loop head"], "bounds": f"{len(paths)} body paths; nmax symbolic",
                              "path_generation_s": round(gen_s, 1)},
                         replay_fn=lambda f: replay.script_replay(method, backward, f, "budget"))

    unit.__name__ = f"c11_budget_{method.lower()}" + ("_back" if backward else "")
    return unit


# ============================================================================== C04 underflow guard (R, DOPRI family)
def c04_guard(method, backward=False):
    """From a loop-head state whose step is below the resolution of x (0.1|h| <= |x| * 2^-53), every
    path ends the run at once with a non-success status and without evaluating the right-hand side."""

    def unit(tier="quick", seed=0):
        t0 = time.time()
        ob = Ob(f"c04_guard_{method.lower()}" + ("_back" if backward else ""))
        paths, gen_s = paths_for(method, "body", backward, True, flags_symbolic=False, tiny_step=True)
        ob.paths = len(paths)
        for p in paths:
            st = S.status_of(p.outcome)
            ob.check(p, st in ("StepSizeTooSmall", "NeedLargerNMax"), f"{method}: a step below the resolution of x does not end the run (outcome {st or p.outcome[1]})")
            ob.check(p, not p.rec.ode_calls and not p.rec.callbacks, f"{method}: evaluations or callbacks with a step below the resolution of x")
        ob.check(paths[0], any(S.status_of(p.outcome) == "StepSizeTooSmall" for p in paths), f"{method}: StepSizeTooSmall is never reported")
        return ob.result(t0, {"functions": [f"{method}::solve loop head (underflow guard)"], "bounds": f"{len(paths)} paths", "path_generation_s": round(gen_s, 1)})

    unit.__name__ = f"c04_guard_{method.lower()}" + ("_back" if backward else "")
    return unit


# ============================================================================== C06 interpolant handed to the callback
def c06_interp_span(method, backward=False):
    """The interpolant of an accepted step covers exactly that step, bit-for-bit: its left end is the
    callback's xold, and the callback's x IS fl(xold + h) of the interpolant's own (xold, h) -- so the
    span recomputed later from the stored segment (cont.rs t_span) reproduces the reported time."""

    def unit(tier="quick", seed=0):
        t0 = time.time()
        ob = Ob(f"c06_interp_span_{method.lower()}" + ("_back" if backward else ""))
        paths, gen_s = paths_for(method, "body", backward, True, flags_symbolic=False)
        ob.paths = len(paths)
        n_ip = 0
        for p in paths:
            for cb in p.rec.callbacks:
                ip = cb["interp"]
                if not (isinstance(ip, REnum) and ip.name == "Some"):
                    ob.check(p, False, f"{method}: accepted step handed to the callback without an interpolant (dense output on)")
                    continue
                n_ip += 1
                f = ip.payload[0].f
                ob.check(p, f["xold"].t.eq(cb["xold"].t), f"{method}: interpolant's left end is not the callback's xold (bit-for-bit)")
                want = f["xold"].t + f["h"].t
                ok = any(r.eq(cb["x"].t) and e.eq(want) for (r, e) in p.dom.rounded)
                ob.check(p, ok, f"{method}: the reported x is not fl(xold + h) of its interpolant: the dense span end and the reported time can differ by a rounding error")
                if len(ob.samples) < 2:
                    ob.samples.append({"path": p.label(), "x": str(cb["x"].t), "interp": [str(f["xold"].t), str(f["h"].t)]})
        ob.check(paths[0], n_ip > 0, f"{method}: no path hands an interpolant to the callback")
        return ob.result(t0, {"functions": [f"{method}::solve accepted-step tail"], "bounds": f"{len(paths)} body paths; term identity (bit-for-bit) facts",
                              "path_generation_s": round(gen_s, 1)},
                         replay_fn=lambda fl: replay.span_replay(method, backward))

    unit.__name__ = f"c06_interp_span_{method.lower()}" + ("_back" if backward else "")
    return unit
