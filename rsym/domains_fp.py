"""Bit-precise domain for LOOP-FREE slices of the solvers' step-size controllers: every float is a z3
Float64 term with IEEE-754 round-to-nearest-even semantics, NaN and infinities included. Rust's
`f64::max/min` ignore a NaN operand (IEEE maxNum/minNum = z3 fp.max/fp.min), `f64::clamp` propagates
it, every comparison with NaN is false. `powf` is an uninterpreted function constrained by its
contract (NaN in => NaN out unless the exponent is 0; positive base => non-NaN non-negative result;
base on one side of 1 bounds the result by 1). Only usable for a handful of operations at a time
(z3's FP theory bit-blasts) -- which is exactly what the rejection branch of a controller is."""
from fractions import Fraction

import z3

F64 = z3.Float64()
RNE = z3.RNE()


def fv(x):
    return z3.FPVal(float(x), F64)


class Bits:
    name = "bits"

    def __init__(self, timeout_ms=60000):
        self.solver = z3.Solver()
        self.solver.set("timeout", timeout_ms)
        self.counter = 0
        self.queries = 0
        self.powf_uf = z3.Function("powf", F64, F64, F64)

    # -- construction
    def const(self, q):
        return fv(float(Fraction(q)))

    def inf(self):
        return z3.fpPlusInfinity(F64)

    def sym(self, name, **kw):
        return z3.FP(name, F64)

    def fresh(self, base):
        self.counter += 1
        return z3.FP(f"{base}!{self.counter}", F64)

    def fresh_bool(self, base):
        self.counter += 1
        return z3.Bool(f"{base}!{self.counter}")

    def opaque_float(self, base):
        return self.fresh(base)

    opaque = opaque_float

    def is_float(self, v):
        return z3.is_expr(v) and z3.is_fp(v)

    def concrete(self, v):
        return None

    def add(self, c):
        self.solver.add(c)

    # -- arithmetic
    def arith(self, op, a, b):
        if op == "+":
            return z3.fpAdd(RNE, a, b)
        if op == "-":
            return z3.fpSub(RNE, a, b)
        if op == "*":
            return z3.fpMul(RNE, a, b)
        if op == "/":
            return z3.fpDiv(RNE, a, b)
        raise ValueError(op)

    def neg(self, a):
        return z3.fpNeg(a)

    def fabs(self, a):
        return z3.fpAbs(a)

    def fmax(self, a, b):
        return z3.fpMax(a, b)

    def fmin(self, a, b):
        return z3.fpMin(a, b)

    def clamp(self, v, lo, hi):
        # core::f64::clamp: `if self < min { min } else if self > max { max } else { self }` -- a NaN passes through
        return z3.If(z3.fpLT(v, lo), lo, z3.If(z3.fpGT(v, hi), hi, v))

    def sqrt(self, a):
        return z3.fpSqrt(RNE, a)

    def powi(self, a, k):
        k = int(k)
        r = fv(1.0)
        for _ in range(abs(k)):
            r = z3.fpMul(RNE, r, a)
        return r if k >= 0 else z3.fpDiv(RNE, fv(1.0), r)

    def powf(self, a, e):
        r = self.powf_uf(a, e)
        one, zero = fv(1.0), fv(0.0)
        self.solver.add(z3.Implies(z3.And(z3.fpIsNaN(a), z3.Not(z3.fpEQ(e, zero))), z3.fpIsNaN(r)))
        self.solver.add(z3.Implies(z3.fpIsNaN(e), z3.fpIsNaN(r)))
        pos = z3.And(z3.fpGT(a, zero), z3.Not(z3.fpIsInf(a)), z3.Not(z3.fpIsNaN(e)), z3.Not(z3.fpIsInf(e)))
        self.solver.add(z3.Implies(pos, z3.And(z3.Not(z3.fpIsNaN(r)), z3.fpGEQ(r, zero))))
        self.solver.add(z3.Implies(z3.And(pos, z3.fpGT(a, one), z3.fpGT(e, zero)), z3.fpGEQ(r, one)))
        self.solver.add(z3.Implies(z3.And(pos, z3.fpGT(a, one), z3.fpLT(e, zero)), z3.fpLEQ(r, one)))
        self.solver.add(z3.Implies(z3.And(pos, z3.fpLT(a, one), z3.fpGT(e, zero)), z3.fpLEQ(r, one)))
        self.solver.add(z3.Implies(z3.And(pos, z3.fpLT(a, one), z3.fpLT(e, zero)), z3.fpGEQ(r, one)))
        # +inf base: +inf for a positive exponent, 0 for a negative one
        self.solver.add(z3.Implies(z3.And(z3.fpIsInf(a), z3.fpGT(a, zero), z3.fpGT(e, zero)), z3.And(z3.fpIsInf(r), z3.fpGT(r, zero))))
        self.solver.add(z3.Implies(z3.And(z3.fpIsInf(a), z3.fpGT(a, zero), z3.fpLT(e, zero)), z3.fpEQ(r, zero)))
        return r

    def signum(self, a):
        return z3.If(z3.fpIsNaN(a), a, z3.If(z3.fpIsNegative(a), fv(-1.0), fv(1.0)))

    def round(self, a):
        return z3.fpRoundToIntegral(z3.RNA(), a)

    def is_nan(self, a):
        return z3.fpIsNaN(a)

    def is_finite(self, a):
        return z3.And(z3.Not(z3.fpIsNaN(a)), z3.Not(z3.fpIsInf(a)))

    # -- comparisons / booleans
    def cmp(self, op, a, b):
        return {"==": z3.fpEQ, "!=": lambda x, y: z3.Not(z3.fpEQ(x, y)), "<": z3.fpLT, ">": z3.fpGT, "<=": z3.fpLEQ, ">=": z3.fpGEQ}[op](a, b)

    def b_not(self, a):
        return (not a) if isinstance(a, bool) else z3.Not(a)

    def b_and(self, a, b):
        return z3.And(a, b)

    def b_or(self, a, b):
        return z3.Or(a, b)

    def concrete_bool(self, c):
        if isinstance(c, bool):
            return c
        if z3.is_true(c):
            return True
        if z3.is_false(c):
            return False
        return None

    def check(self, extra=()):
        self.queries += 1
        return self.solver.check(*extra)

    def feasible(self, cond, value):
        return self.check([cond if value else z3.Not(cond)]) != z3.unsat

    def assume(self, cond, value):
        self.solver.add(cond if value else z3.Not(cond))

    def holds(self, fact):
        """fact holds on every state of the current path?  True / False (model in self.model) / None"""
        r = self.check([z3.Not(fact)])
        if r == z3.unsat:
            return True
        if r == z3.sat:
            self.model = self.solver.model()
            return False
        return None
