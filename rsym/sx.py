"""Shared symbolic-execution drivers for the `solve` functions (exact and round domains)."""
import time
from fractions import Fraction

import sympy as sp

from . import domains as D
from . import model as M
from .interp import (Interp, RVec, RStruct, REnum, ElemRef, Unsupported, PathEnd, RustPanic, SymEnum, NONE, some,
                     explore, _Break, _Continue, Env)


def assigned_names(node, out=None):
    """Names assigned (=, op=) anywhere inside an AST node."""
    if out is None:
        out = set()
    if isinstance(node, tuple):
        if node and node[0] == "assign":
            lhs = node[2]
            if lhs[0] == "path" and len(lhs[1]) == 1:
                out.add(lhs[1][0])
        for ch in node:
            assigned_names(ch, out)
    elif isinstance(node, list):
        for ch in node:
            assigned_names(ch, out)
    return out


class Path:
    def __init__(self, decisions, trail, outcome, rec, dom, env, it):
        self.decisions = decisions
        self.trail = trail
        self.outcome = outcome   # ('return', value) | ('end', kind) | ('panic', msg)
        self.rec = rec
        self.dom = dom
        self.env = env           # environment of solve() at the end of the iteration (or None)
        self.it = it

    def var(self, name):
        return self.env.get(name)

    def __repr__(self):
        return f"Path({''.join('T' if d else 'F' for d in self.decisions)}, {self.outcome[0]}:{str(self.outcome[1])[:40]}, odes={len(self.rec.ode_calls)}, cbs={len(self.rec.callbacks)})"


def exact_first_iteration(method, n=1, backward=False, first_step=True, overrides=None, flag_policy=None,
                          iterations=1, tol="scalar", max_paths=512, havoc=True, keep=("x", "h")):
    """Execute `<method>::solve` from its entry through `iterations` main-loop iterations in the
    exact domain. Inputs: x0, span>0 (xend = x0 +- span), h0>0, y0_i, rtol/atol > 0 symbolic."""
    items = M.method_items(method)
    paths = []

    def run(preset):
        dom = D.Exact()
        rec = M.Recorder()
        state = {"main": None, "env": None, "iters": 0}

        def on_loop(it, node, env):
            if state["main"] is None:
                state["main"] = node
            if node is not state["main"]:
                return NotImplemented
            label = node[1]
            if havoc and not state.get("havoced"):
                state["havoced"] = []
                for name in sorted(assigned_names(node[2])):
                    if name in keep:
                        continue
                    e = env.lookup(name)
                    if e is None:
                        continue
                    v = e.vars[name]
                    if isinstance(v, sp.Expr):
                        # loop-carried scalar: arbitrary at the loop head (inductive-step reading)
                        e.vars[name] = sp.Symbol(f"hv_{name}", real=True)
                        state["havoced"].append(name)
                    elif havoc == "all" and isinstance(v, bool) and name not in ("last",):
                        e.vars[name] = it.truth(dom.fresh_bool(f"hv_{name}"), f"havoc {name}")
                        state["havoced"].append(name)
                    elif havoc == "all" and isinstance(v, REnum) and v.name in ("None", "Some") and name == "xout":
                        if it.truth(dom.fresh_bool("hv_xout_some"), "havoc xout"):
                            e.vars[name] = some(sp.Symbol("hv_xout", real=True))
                        state["havoced"].append(name)
            for k in range(iterations):
                try:
                    it.block(node[2], env)
                except _Break as b:
                    if b.label is None or b.label == label:
                        state["env"] = env
                        return b.value
                    raise
                except _Continue as c:
                    if c.label is None or c.label == label:
                        state["iters"] += 1
                        continue
                    raise
                state["iters"] += 1
            state["env"] = env
            raise PathEnd("end_of_iteration")

        hooks = M.make_hooks(dom, rec, n, flag_policy=flag_policy, extra={"on_loop": on_loop})
        it = Interp(dom, items, hooks)
        it.preset = preset
        x0 = dom.sym("x0")
        span = sp.Symbol("span", positive=True)
        xend = x0 - span if backward else x0 + span
        h0 = sp.Symbol("h0", positive=True)
        ov = dict(overrides or {})
        if method != "RK4" and first_step:
            ov.setdefault("first_step", some(h0))
        slf = M.solver_struct(it, method, ov)
        f = M.OdeModel(dom, rec, n)
        so = M.SolOutModel(rec, flag_policy)
        y0 = RVec([dom.sym(f"y0_{i}") for i in range(n)])
        if method == "RK4":
            h = -h0 if backward else h0
            args = [slf, f, x0, y0, xend, h, some(so)]
        else:
            if tol == "scalar":
                rt, at = M.tol_scalar(sp.Symbol("rtol", positive=True)), M.tol_scalar(sp.Symbol("atol", positive=True))
            else:
                rt = M.tol_vector([sp.Symbol(f"rtol_{i}", positive=True) for i in range(n)])
                at = M.tol_vector([sp.Symbol(f"atol_{i}", positive=True) for i in range(n)])
            args = [slf, f, x0, y0, xend, rt, at, some(so)]
        try:
            r = it.call_fn(f"{method}::solve", args)
            out = ("return", r)
        except PathEnd as e:
            out = ("end", e.kind)
        except RustPanic as e:
            out = ("panic", str(e))
        return it.trail, (out, rec, dom, state["env"], it)

    for dec, trail, (out, rec, dom, env, it) in explore(run, max_paths=max_paths):
        paths.append(Path(dec, trail, out, rec, dom, env, it))
    return paths


def call_interpolate(path, cb_index, theta):
    """Compose the callback's interpolant with the method's `interpolate` at xold + theta*h."""
    cb = path.rec.callbacks[cb_index]
    ip = cb["interp"]
    if isinstance(ip, REnum):
        if ip.name != "Some":
            raise Unsupported("no interpolant handed to the callback")
        ip = ip.payload[0]
    f = ip.f
    n = len(cb["y"])
    yi = RVec([sp.Integer(0)] * n)
    xi = f["xold"] + theta * f["h"]
    path.it.call_value(f["interp_fn"], [xi, yi, f["cont"], f["xold"], f["h"]])
    return yi.items(), f
