"""R unit for C20's `sol` clause: the segment lookup behind the Python binding's OdeSolution.__call__
(ContinuousOutput::evaluate_extrapolate, src/solve/cont.rs) against the strict lookup behind the Rust
Solution::sol (ContinuousOutput::evaluate), on symbolic contiguous segments."""
import time
from fractions import Fraction

import z3

from . import replay
from .interp import REnum, RStruct, RVec
from .stepper import qv, zabs, EPS
from .units_step import Ob
from .units_handler import same, MethodModel, TOL


def c20_extrapolate_lookup(n_seg, backward=False):
    def unit(tier="quick", seed=0):
        from . import domains as D, model as M
        from .interp import Interp, FnVal, explore, RustPanic
        from .stepper import IterPath
        t0 = time.time()
        nm = f"c20_extrapolate_lookup_{n_seg}segments" + ("_back" if backward else "")
        ob = Ob(nm)
        its = M.load_items("src/solve/cont.rs", "src/dense.rs")

        def run(preset):
            dom = D.Round()
            used = []

            def ident(it_, xi, yi, cont, xold, h):
                for i in range(len(yi)):
                    yi.set(i, xi)
                used.append((cont.items()[0], xold, h))
                return None

            def m_interp_fn(it_, recv, arg_ns, env, node):
                if isinstance(recv, MethodModel):
                    return FnVal("identity_interpolant", py=ident)
                return NotImplemented

            it = Interp(dom, its, {"methods": {"interpolate_fn": m_interp_fn}, "fns": {}, "globals": {}, "ctors": {}})
            it.preset = preset
            d = -1 if backward else 1
            x0 = dom.sym("x0")
            dom.add(zabs(x0.t) <= z3.RealVal(10) ** 6)
            xs = [x0]
            segs = []
            for k in range(n_seg):
                h = dom.sym(f"h{k}")
                dom.add(h.t * d > qv(Fraction(4, 10 ** 12)))
                dom.add(zabs(h.t) <= z3.RealVal(10) ** 6)
                dom.add(h.t * d >= qv(16 * EPS) * zabs(xs[-1].t))
                segs.append((RVec([dom.const(k)]), xs[-1], h))
                xs.append(dom.arith("+", xs[-1], h))
            t = dom.sym("t")
            co = it.call_fn("ContinuousOutput::from_segments", [MethodModel(), 1, RVec(segs)])
            try:
                strict = it.call_fn("ContinuousOutput::evaluate", [co, t])
                n_strict = len(used)
                ext = it.call_fn("ContinuousOutput::evaluate_extrapolate", [co, t])
                out = ("return", (strict, ext))
            except RustPanic as e:
                out = ("panic", str(e))
                n_strict = len(used)
            return it.trail, IterPath(outcome=out, dom=dom, it=it, xs=xs, t=t, used=list(used), n_strict=n_strict, dirn=d)

        paths = []
        for dec, trail, p in explore(run, max_paths=4000):
            p.decisions = dec
            p.trail = trail
            p.dom.solver = None
            paths.append(p)
        ob.paths = len(paths)
        for p in paths:
            d = p.dirn
            if p.outcome[0] == "panic":
                ob.failed.append((f"evaluate_extrapolate panicked: {p.outcome[1]}", p.label(), {}, {}))
                continue
            strict, ext = p.outcome[1]
            lo = p.xs[0].t if d > 0 else p.xs[-1].t
            hi = p.xs[-1].t if d > 0 else p.xs[0].t
            inside = z3.And(p.t.t >= lo, p.t.t <= hi)
            s_ok = isinstance(strict, REnum) and strict.name == "Some"
            e_ok = isinstance(ext, REnum) and ext.name == "Some"
            ob.check(p, e_ok, "the extrapolating lookup returns nothing although segments exist")
            if not e_ok:
                continue
            ob.check(p, same(ext.payload[0].items()[0], p.t), "the extrapolating lookup does not evaluate an interpolant at t")
            k_e, xold_e, h_e = p.used[-1]
            if s_ok:
                # inside coverage: the binding's sol(t) and the Rust sol(t) use the same segment, hence return the same numbers
                k_s = p.used[p.n_strict - 1][0]
                ob.check(p, k_s.exact_const == k_e.exact_const, "inside the covered span the extrapolating lookup uses a different segment than Solution::sol")
            else:
                ob.check(p, z3.Not(inside), "the strict lookup fails for a time inside the covered span")
                ke = int(k_e.exact_const)
                ob.check(p, ke in (0, len(p.xs) - 2), "outside the covered span the extrapolating lookup uses an interior segment")
            # whichever lookup: a segment used for a time inside the span contains that time (to the lookup's 1e-12)
            a, b = xold_e.t, p.xs[int(k_e.exact_const) + 1].t
            l2, h2 = (a, b) if d > 0 else (b, a)
            sl = qv(TOL) * 2 + qv(8 * EPS) * (zabs(lo) + zabs(hi))
            ob.check(p, z3.Implies(inside, z3.And(p.t.t >= l2 - sl, p.t.t <= h2 + sl)), "for a time inside the covered span the extrapolating lookup evaluates a segment that does not contain it")
            if len(ob.samples) < 2:
                ob.samples.append({"path": p.label(), "strict": repr(strict)[:40], "extrapolating": repr(ext)[:40], "segment": str(k_e.exact_const)})
        return ob.result(t0, {"functions": ["ContinuousOutput::from_segments, evaluate, find_segment, evaluate_extrapolate, find_segment_extrapolate", "DenseSegment::new/interpolate"],
                              "bounds": f"{n_seg} contiguous segments (right end = fl(xold+h)), |x|,|h| <= 1e6, steps > 4e-12 and >= 16 ulp; query time symbolic; {len(paths)} paths",
                              "path_generation_s": 0},
                         replay_fn=lambda f: replay.lookup_replay(n_seg, backward, f))

    unit.__name__ = f"c20_extrapolate_lookup_{n_seg}segments" + ("_back" if backward else "")
    return unit
