"""R units over the default output handler (C05, C08, C09, C10, C12): facts checked on every
feasible path of rsym.handler.run_sequence."""
import time
from fractions import Fraction

import z3

from . import handler as H
from . import replay
from .interp import REnum, RStruct, RVec, Unsupported
from .stepper import qv, zabs, EPS
from .units_step import Ob

TOL = Fraction(1, 10 ** 12)
_cache = {}


def seq(**kw):
    key = tuple(sorted((k, str(v)) for k, v in kw.items()))
    if key not in _cache:
        t0 = time.time()
        _cache[key] = (H.run_sequence(**kw), time.time() - t0)
    return _cache[key]


def terms(vec):
    return [v for v in vec.items()]


def same(a, b):
    """term identity of two Round values"""
    return a is b or (hasattr(a, "t") and hasattr(b, "t") and a.t.eq(b.t))


def payload(p):
    f = p.so.f
    return (terms(f["t"]), [terms(r) for r in f["y"].items()], [terms(r) for r in f["t_events"].items()],
            [[terms(s) for s in r.items()] for r in f["y_events"].items()], f["dense_segs"].items())


def interrupted(p):
    return any(isinstance(f, REnum) and f.name == "Interrupt" for f in p.flags)


def last_x(p):
    """x of the last call made"""
    return p.xs[len(p.flags) - 1]


def cfg_name(configs):
    return "_".join(f"{d[0].lower()}{'' if tc is None else tc}" for d, tc in configs) or "noev"


# ============================================================================== C05
def c05_teval(n_steps, m, backward=False, configs=(), name=None):
    configs = list(configs)

    def unit(tier="quick", seed=0):
        t0 = time.time()
        nm = name or f"c05_teval_{n_steps}steps_{m}times" + ("_back" if backward else "") + ("_" + cfg_name(configs) if configs else "")
        ob = Ob(nm)
        paths, gen_s = seq(n_steps=n_steps, t_eval_len=m, configs=configs, backward=backward)
        ob.paths = len(paths)
        for p in paths:
            if p.outcome.startswith("panic"):
                ob.failed.append((f"handler panicked: {p.outcome}", p.label(), {}, script(p)))
                continue
            t, y, te_, ye_, ds = payload(p)
            d = p.dirn
            stop = interrupted(p)
            if not stop:
                ob.check(p, len(t) == m and all(same(a, b) for a, b in zip(t, p.te)),
                         f"t_eval: a completed run reports {len(t)} times for {m} requested ones (or not the requested values, in order)")
            else:
                # early stop at a terminal event: every requested time not beyond the event is reported, none beyond,
                # plus the event point itself as the last entry
                tstop = te_term(p)
                ob.check(p, len(t) >= 1 and tstop is not None and same(t[-1], tstop), "t_eval + terminal event: the last reported sample is not the event point")
                body = t[:-1]
                ob.check(p, all(same(a, b) for a, b in zip(body, p.te)) and len(body) <= m,
                         "t_eval + terminal event: reported times are not a prefix of the requested ones")
                if tstop is not None:
                    k = len(body)
                    sl = qv(TOL) * (1 + qv(4 * EPS)) + qv(4 * EPS) * zabs(tstop.t)   # the handler's own 1e-12 slack
                    for i in range(m):
                        if i < k:
                            ob.check(p, (p.te[i].t - tstop.t) * d <= sl, "t_eval + terminal event: a requested time beyond the event is reported")
                        else:
                            ob.check(p, (p.te[i].t - tstop.t) * d >= -sl, "t_eval + terminal event: a requested time not beyond the event is missing")
            ob.check(p, len(y) == len(t) and all(len(r) == 1 for r in y), "t and y have different lengths")
            for k in range(len(p.flags)):
                ob.check(p, p.rec["xy_intact"][k], "the output handler modified x or y of the solver")
            if not stop:
                ob.check(p, all(f.name == "Continue" for f in p.flags), "the handler returned a flag other than Continue")
            for j in range(len(t)):
                v = y[j][0]
                near0 = zabs(t[j].t - p.xs[0].t) <= qv(TOL) * (1 + qv(4 * EPS))
                is_t = same(v, t[j])
                if is_t:
                    continue
                ob.check(p, z3.And(near0, v.t == p.xs[0].t) if not isinstance(is_t, bool) or not is_t else True,
                         "t_eval: a reported value is not the interpolant at its reported time")
            # the interpolant used for a requested time belongs to a step containing it
            for (k, tt) in p.rec["interp_at"]:
                # the handler serves a requested time from a step if it lies within 1e-12 (+ rounding of
                # x +- 1e-12 at the magnitude of x) of it
                sl = qv(TOL) * 2 + qv(4 * EPS) * (zabs(p.xs[k - 1].t) + zabs(p.xs[k].t))
                lo_ok = (tt.t - p.xs[k - 1].t) * d >= -sl
                hi_ok = (p.xs[k].t - tt.t) * d >= -sl
                ob.check(p, z3.And(lo_ok, hi_ok), "t_eval: a requested time was interpolated with the interpolant of a step that does not contain it")
            if len(ob.samples) < 3:
                ob.samples.append({"path": p.label(), "reported": [str(v.t) for v in t], "flags": [f.name for f in p.flags]})
        # dense flag independence: the explorations with dense output on and off have the same reported (t, y, events)
        import re as _re

        def sig(p):
            t, y, te_, ye_, ds = payload(p)
            norm = lambda v: _re.sub(r"!\d+", "", str(v.t))
            return (tuple(norm(v) for v in t), tuple(norm(r[0]) for r in y), tuple(tuple(norm(v) for v in r) for r in te_),
                    tuple(f.name for f in p.flags), tuple(tuple(str(v.exact_const) for v in c[2]) for c in p.ev.calls if not c[4]))

        on = sorted(sig(p) for p in paths if p.dense is True)
        off = sorted(sig(p) for p in paths if p.dense is False)
        ob.check(paths[0], on == off, "reported (t, y, events) depend on whether dense output is collected")
        return ob.result(t0, {"functions": ["DefaultSolOut::new", "DefaultSolOut::solout (Mode 1: t_eval)"],
                              "bounds": f"{n_steps} accepted steps (symbolic boundaries, each > 4e-12 long, |x| <= 1e6), {m} requested times sorted and inside the span (duplicates allowed), dense flag symbolic, events {configs}; {len(paths)} feasible paths",
                              "path_generation_s": round(gen_s, 1)},
                         replay_fn=lambda f: replay.handler_replay(f))

    unit.__name__ = name or f"c05_teval_{n_steps}steps_{m}times" + ("_back" if backward else "") + ("_" + cfg_name(configs) if configs else "")
    return unit


def te_term(p):
    """time of the terminal event that stopped the run (last recorded event of a terminal function)"""
    best = None
    for i, (d, tc) in enumerate(p.ev.configs):
        if tc is None:
            continue
        tv = terms(p.so.f["t_events"].items()[i])
        if len(tv) >= tc:
            best = tv[tc - 1]
    return best


def script(p):
    """Concrete scenario of a path (for native replay): filled from the solver model on failure."""
    return {"n_steps": p.n_steps, "backward": p.backward, "configs": p.ev.configs, "dense": p.dense if isinstance(p.dense, bool) else None,
            "event_values": [[str(v.exact_const) for v in c[2]] for c in p.ev.calls if not c[4]],
            "has_teval": p.te is not None, "has_first_step": p.h0 is not None}


# ============================================================================== C03 layer 2 (mode 2)
def c03_mode2(n_steps, backward=False, with_first_step=False):
    def unit(tier="quick", seed=0):
        t0 = time.time()
        nm = f"c03_handler_mode2_{n_steps}steps" + ("_back" if backward else "") + ("_firststep" if with_first_step else "")
        ob = Ob(nm)

        def assume(dom, xs, te, h0):
            if h0 is not None:
                # first_step not larger than the span (documented; larger values: see known findings)
                span = (xs[-1].t - xs[0].t) * (-1 if backward else 1)
                dom.add(h0.t <= span)
                dom.add(h0.t > qv(Fraction(4, 10 ** 12)))
                dom.add(h0.t >= qv(16 * EPS) * (zabs(xs[0].t) + zabs(xs[-1].t)))

        paths, gen_s = seq(n_steps=n_steps, t_eval_len=None, configs=[], backward=backward, with_first_step=with_first_step, extra_assume=assume)
        ob.paths = len(paths)
        for p in paths:
            if p.outcome.startswith("panic"):
                ob.failed.append((f"handler panicked: {p.outcome}", p.label(), {}, script(p)))
                continue
            t, y, _, _, ds = payload(p)
            d = p.dirn
            ob.check(p, len(t) >= 1 and same(t[0], p.xs[0]), "without t_eval the first reported time is not x0")
            ob.check(p, len(y) == len(t) and all(len(r) == 1 for r in y), "t and y have different lengths")
            for j in range(1, len(t)):
                ob.check(p, (t[j].t - t[j - 1].t) * d > 0, "reported times are not strictly monotone toward xend")
            ob.check(p, (p.xs[-1].t - t[-1].t) * d >= 0, "a reported time lies beyond the last accepted step")
            ob.check(p, zabs(t[-1].t - p.xs[-1].t) <= qv(TOL) * (1 + qv(4 * EPS)) + qv(4 * EPS) * zabs(p.xs[-1].t),
                     "the last reported time is not the end of the last accepted step (to the handler's 1e-12)")
            for j in range(len(t)):
                ob.check(p, same(y[j][0], t[j]), "a reported state does not belong to its reported time")
            if not with_first_step:
                ob.check(p, len(t) == p.n_steps + 1, "without first_step every accepted step end is reported exactly once")
            if isinstance(p.dense, bool) and p.dense:
                ob.check(p, len(ds) == p.n_steps, "dense output: not exactly one segment per accepted step")
                for k, sgm in enumerate(ds):
                    ob.check(p, same(sgm[1], p.xs[k]), "dense output: segment does not start at the step's left end")
            elif isinstance(p.dense, bool):
                ob.check(p, len(ds) == 0, "dense segments collected although dense output is disabled")
            if len(ob.samples) < 2:
                ob.samples.append({"path": p.label(), "reported": [str(v.t) for v in t]})
        return ob.result(t0, {"functions": ["DefaultSolOut::solout (Mode 2, first-step enforcement, dense collection)"],
                              "bounds": f"{n_steps} accepted steps, each > 4e-12; first_step {'symbolic in (4e-12, span]' if with_first_step else 'None'}; {len(paths)} paths",
                              "path_generation_s": round(gen_s, 1)},
                         replay_fn=lambda f: replay.handler_replay(f))

    unit.__name__ = f"c03_handler_mode2_{n_steps}steps" + ("_back" if backward else "") + ("_firststep" if with_first_step else "")
    return unit


# ============================================================================== C08 / C09 / C10 / C12 events
def crossing_spec(direction, left, right):
    """(must, may): must = strictly opposite signs in the configured direction (order of integration);
    may = a crossing involving an exact zero at an end point (either adjacent step may report it)."""
    if direction == "All":
        must = (left < 0 < right) or (left > 0 > right)
        may = must or left == 0 or right == 0
    elif direction == "Positive":
        must = left < 0 < right
        may = must or (left < 0 and right == 0) or (left == 0 and right > 0) or (left == 0 and right == 0)
    else:
        must = left > 0 > right
        may = must or (left > 0 and right == 0) or (left == 0 and right < 0) or (left == 0 and right == 0)
    return must, may


def events_unit(prop, n_steps, configs, backward=False, with_teval=None, event_values="signs", with_first_step=False):
    configs = list(configs)
    # "near": both signs at a normal magnitude and below the root finder's xtol (the end-point shortcuts), no exact zero
    EV_NEAR = [Fraction(-1), Fraction(-1, 10 ** 13), Fraction(1, 10 ** 13), Fraction(1)]
    # "tiny": same-sign values whose product underflows in binary64 (constants are folded with binary64 semantics)
    EV_TINY = [Fraction(-1, 10 ** 200), Fraction(1, 10 ** 200), Fraction(-1), Fraction(1)]
    evs = H.EV_SIGNS if event_values == "signs" else (EV_NEAR if event_values == "near" else EV_TINY if event_values == "tiny" else H.EV_RICH)
    nm = f"{prop}_events_{n_steps}steps_{cfg_name(configs)}" + ("_back" if backward else "") + (f"_te{with_teval}" if with_teval else "") + \
        ({"signs": "", "near": "_near", "tiny": "_tiny"}.get(event_values, "_rich")) + ("_firststep" if with_first_step else "")

    def unit(tier="quick", seed=0):
        t0 = time.time()
        ob = Ob(nm)

        def assume(dom, xs, te, h0):
            if h0 is not None:
                span = (xs[-1].t - xs[0].t) * (-1 if backward else 1)
                dom.add(h0.t <= span)
                dom.add(h0.t > qv(Fraction(4, 10 ** 12)))

        paths, gen_s = seq(n_steps=n_steps, t_eval_len=with_teval, configs=configs, backward=backward, event_values=evs,
                           with_first_step=with_first_step, extra_assume=assume)
        ob.paths = len(paths)
        for p in paths:
            if p.outcome.startswith("panic"):
                ob.failed.append((f"handler panicked: {p.outcome}", p.label(), {}, script(p)))
                continue
            t, y, te_, ye_, ds = payload(p)
            d = p.dirn
            ncalls = len(p.flags)
            endvals = [c for c in p.ev.calls if not c[4]]          # one per solout call
            ob.check(p, len(endvals) == ncalls, "event functions are not evaluated exactly once per callback at the step end")
            nfun = len(configs)
            term_hit = None
            for i in range(nfun):
                direction, tc = configs[i]
                times = te_[i]
                ob.check(p, len(times) == len(ye_[i]) and all(len(s) == 1 for s in ye_[i]), "t_events and y_events have different shapes")
                # (b) the recorded state is the solution at the recorded time
                for j in range(len(times)):
                    ob.check(p, same(ye_[i][j][0], times[j]), "an event's recorded state is not the interpolant/state at the event time")
                # (a) the recorded time is a root as far as the handler could see: it is a time at which it evaluated event
                # function i and obtained |g_i| <= xtol (an end-point shortcut, or the exact zero at Brent's probe)
                for j in range(len(times)):
                    roots = [c for c in p.ev.calls if same(c[0], times[j]) and c[2][i].exact_const is not None and abs(c[2][i].exact_const) <= Fraction(2, 10 ** 12)]
                    ob.check(p, len(roots) >= 1, "an event is recorded at a time where its event function was not found (numerically) zero")
                # ordering along the direction of integration
                for j in range(1, len(times)):
                    ob.check(p, (times[j].t - times[j - 1].t) * d >= 0, "events of one function are not in the order of integration")
                # every recorded time lies in the span covered so far
                for j in range(len(times)):
                    ob.check(p, z3.And((times[j].t - p.xs[0].t) * d >= 0, (p.xs[ncalls - 1].t - times[j].t) * d >= 0),
                             "an event time lies outside the steps taken so far")
                # C09 / C08(c): per step, count vs sign pattern
                per_step = p.rec.get("lens")
            # per-step attribution needs the lengths after each call
            lens = p.rec.get("lens", [])
            for k in range(1, ncalls):
                for i in range(nfun):
                    direction, tc = configs[i]
                    left = float(endvals[k - 1][2][i].exact_const)
                    right = float(endvals[k][2][i].exact_const)
                    must, may = crossing_spec(direction, left, right)
                    n_here = lens[k][i] - lens[k - 1][i]
                    stopped_here = (k == ncalls - 1) and interrupted(p)
                    if must and not stopped_here:
                        ob.check(p, n_here == 1, f"strictly opposite signs ({direction}) but {n_here} events recorded in that step")
                    elif not may:
                        ob.check(p, n_here == 0, f"no sign change in the configured direction ({direction}) but {n_here} event(s) recorded")
                    else:
                        ob.check(p, n_here <= 1, f"{n_here} events of one function recorded in one step")
                    if n_here == 1:
                        te = te_[i][lens[k][i] - 1]
                        inside = z3.And((te.t - p.xs[k - 1].t) * d >= 0, (p.xs[k].t - te.t) * d >= 0)
                        ob.check(p, inside, "an event time lies outside the step that recorded it")
            # C10: terminal semantics
            hits_reached = None
            for i in range(nfun):
                direction, tc = configs[i]
                if tc is not None and len(te_[i]) >= tc:
                    hits_reached = i
            if interrupted(p):
                ob.check(p, hits_reached is not None, "Interrupt returned although no terminal event reached its count")
                if hits_reached is not None:
                    i = hits_reached
                    tterm = te_[i][configs[i][1] - 1]
                    ob.check(p, len(t) >= 1 and same(t[-1], tterm) and same(y[-1][0], tterm), "the final sample after a terminal event is not the event point")
                    for i2 in range(nfun):
                        for tv in te_[i2]:
                            ob.check(p, (tterm.t - tv.t) * d >= 0, "an event later than the terminal event is reported")
                    # events of the stopping step that occurred before the terminal one are kept
                    k = ncalls - 1
                    for i2 in range(nfun):
                        if i2 == i:
                            continue
                        direction, tc2 = configs[i2]
                        left = float(endvals[k - 1][2][i2].exact_const)
                        right = float(endvals[k][2][i2].exact_const)
                        must, may = crossing_spec(direction, left, right)
                        n_here = lens[k][i2] - lens[k - 1][i2]
                        ob.check(p, n_here <= 1 and (n_here == 0 or may), "spurious event recorded in the stopping step")
                ob.check(p, all(f.name == "Continue" for f in p.flags[:-1]), "a callback before the terminal one did not return Continue")
            else:
                ob.check(p, hits_reached is None, "a terminal event reached its count but the handler did not return Interrupt")
                ob.check(p, all(isinstance(f, REnum) and f.name == "Continue" for f in p.flags), "the handler returned a flag other than Continue")
            # C12: the handler never writes x or y
            for k in range(ncalls):
                ob.check(p, p.rec["xy_intact"][k], "the output handler modified x or y of the solver")
            if with_teval is None and not with_first_step:
                body = t[:-1] if interrupted(p) else t
                exp = [p.xs[k] for k in range(ncalls - (1 if interrupted(p) else 0))]
                ob.check(p, len(body) == len(exp) and all(same(a, b) for a, b in zip(body, exp)),
                         "with events the accepted step ends are not all reported (before the stop)")
            if len(ob.samples) < 3:
                ob.samples.append({"path": p.label(), "end_point_values": [[str(v.exact_const) for v in c[2]] for c in endvals],
                                   "t_events": [[str(v.t) for v in r] for r in te_], "flags": [f.name for f in p.flags]})
        return ob.result(t0, {"functions": ["DefaultSolOut::solout (event detection, Brent refinement, terminal handling, output sampling)"],
                              "bounds": f"{n_steps} steps, event configs {configs}, end-point values from {[str(v) for v in evs]}, Brent bounded by an exact root at the first interior probe; {len(paths)} paths",
                              "path_generation_s": round(gen_s, 1)},
                         replay_fn=lambda f: replay.handler_replay(f))

    unit.__name__ = nm
    return unit


# ============================================================================== C06 dense collection / lookup
def c06_dense_collection(n_steps, backward=False, configs=()):
    """The handler stores exactly one dense segment per accepted step it was called for -- whatever the step
    length (down to the resolution of x, far below its 1e-12 time slack), and also for the step in which a
    terminal event stops the run (the final sample, the event point, lies inside that step)."""
    configs = list(configs)

    def unit(tier="quick", seed=0):
        t0 = time.time()
        nm = f"c06_dense_collection_{n_steps}steps" + ("_back" if backward else "") + ("_" + cfg_name(configs) if configs else "")
        ob = Ob(nm)
        paths, gen_s = seq(n_steps=n_steps, t_eval_len=None, configs=configs, backward=backward, dense=True,
                           min_step=Fraction(1, 10 ** 18) if not configs else Fraction(4, 10 ** 12))
        ob.paths = len(paths)
        for p in paths:
            if p.outcome.startswith("panic"):
                ob.failed.append((f"handler panicked: {p.outcome}", p.label(), {}, p.script()))
                continue
            ds = p.so.f["dense_segs"].items()
            n_acc = (len(p.flags) - 1) if configs else p.n_steps      # accepted steps the handler was called for (a terminal event ends the calls)
            ob.check(p, len(ds) == n_acc, f"dense output: {len(ds)} segments stored for {n_acc} accepted steps")
            p.n_steps_seen = n_acc
            for k, sgm in enumerate(ds[: n_acc]):
                ob.check(p, same(sgm[1], p.xs[k]), "dense output: a stored segment does not start at its step's left end")
            if len(ob.samples) < 2:
                ob.samples.append({"path": p.label(), "segments": len(ds)})
        return ob.result(t0, {"functions": ["DefaultSolOut::solout dense collection"], "bounds": f"{n_steps} steps of any length above 16 ulp; {len(paths)} paths", "path_generation_s": round(gen_s, 1)},
                         replay_fn=lambda f: replay.handler_replay(f))

    unit.__name__ = f"c06_dense_collection_{n_steps}steps" + ("_back" if backward else "") + ("_" + cfg_name(configs) if configs else "")
    return unit


class MethodModel:
    pass


def c06_lookup(n_seg, backward=False):
    """ContinuousOutput::from_segments / t_span / evaluate / find_segment and Solution::sol on symbolic
    contiguous segments (each segment's right end is fl(xold + h), which is the next left end)."""

    def unit(tier="quick", seed=0):
        from . import domains as D, model as M
        from .interp import Interp, FnVal, explore, PathEnd, RustPanic, some, NONE
        from .stepper import zabs, zmax
        t0 = time.time()
        nm = f"c06_lookup_{n_seg}segments" + ("_back" if backward else "")
        ob = Ob(nm)
        its = M.load_items("src/solve/cont.rs", "src/solve/solution.rs", "src/dense.rs")
        results = []

        def run(preset):
            dom = D.Round()
            used = []

            def ident(it_, xi, yi, cont, xold, h):
                for i in range(len(yi)):
                    yi.set(i, xi)
                used.append((cont.items()[0], xold, h))
                return None

            def m_interp_fn(it_, recv, arg_ns, env, node):
                if isinstance(recv, MethodModel):
                    return FnVal("identity_interpolant", py=ident)
                return NotImplemented

            it = Interp(dom, its, {"methods": {"interpolate_fn": m_interp_fn}, "fns": {}, "globals": {}, "ctors": {}})
            it.preset = preset
            d = -1 if backward else 1
            x0 = dom.sym("x0")
            dom.add(zabs(x0.t) <= z3.RealVal(10) ** 6)
            xs = [x0]
            segs = []
            for k in range(n_seg):
                h = dom.sym(f"h{k}")
                dom.add(h.t * d > qv(Fraction(4, 10 ** 12)))
                dom.add(zabs(h.t) <= z3.RealVal(10) ** 6)
                dom.add(h.t * d >= qv(16 * EPS) * zabs(xs[-1].t))
                segs.append((RVec([dom.const(k)]), xs[-1], h))
                xs.append(dom.arith("+", xs[-1], h))
            t = dom.sym("t")
            enabled = it.truth(dom.fresh_bool("dense_enabled"), "dense enabled")
            co = it.call_fn("ContinuousOutput::from_segments", [MethodModel(), 1, RVec(segs)])
            sol = RStruct("Solution", {"continuous_sol": some(co) if enabled else NONE})
            try:
                r = it.call_fn("Solution::sol", [sol, t])
                out = ("return", r)
            except RustPanic as e:
                out = ("panic", str(e))
            span = it.call_fn("ContinuousOutput::t_span", [co])
            from .stepper import IterPath
            return it.trail, IterPath(outcome=out, dom=dom, it=it, xs=xs, t=t, used=used, enabled=enabled, span=span, dirn=d, segs=segs)

        paths = []
        for dec, trail, p in explore(run, max_paths=2000):
            p.decisions = dec
            p.trail = trail
            p.dom.solver = None
            paths.append(p)
        ob.paths = len(paths)
        for p in paths:
            d = p.dirn
            if p.outcome[0] == "panic":
                ob.failed.append((f"sol() panicked: {p.outcome[1]}", p.label(), {}, {}))
                continue
            r = p.outcome[1]
            lo = p.xs[0].t if d > 0 else p.xs[-1].t
            hi = p.xs[-1].t if d > 0 else p.xs[0].t
            if not p.enabled:
                ok = isinstance(r, REnum) and r.name == "Err" and "NotEnabled" in repr(r)
                ob.check(p, ok, "sol() without dense output does not report NotEnabled")
                continue
            sp_ = p.span
            ok = isinstance(sp_, REnum) and sp_.name == "Some" and same(sp_.payload[0][0], p.xs[0]) and same(sp_.payload[0][1], p.xs[-1])
            ob.check(p, ok, "t_span is not (x0, last reported x) bit-for-bit")
            inside = z3.And(p.t.t >= lo, p.t.t <= hi)
            sl = qv(TOL) * 2 + qv(8 * EPS) * (zabs(lo) + zabs(hi))
            clearly_out = z3.Or(p.t.t < lo - sl, p.t.t > hi + sl)
            if isinstance(r, REnum) and r.name == "Ok":
                ob.check(p, z3.Not(clearly_out), "sol(t) succeeds for a time clearly outside the covered span")
                val = r.payload[0].items()[0]
                ob.check(p, same(val, p.t), "sol(t) does not evaluate an interpolant at t")
                if p.used:
                    k, xold, h = p.used[-1]
                    a, b = xold.t, p.xs[int(k.exact_const) + 1].t
                    l2, h2 = (a, b) if d > 0 else (b, a)
                    ob.check(p, z3.And(p.t.t >= l2 - sl, p.t.t <= h2 + sl), "sol(t) evaluates a segment that does not contain t")
            else:
                ob.check(p, z3.Not(inside), "sol(t) fails for a time inside the covered span")
                ob.check(p, "OutOfRange" in repr(r), "sol(t) outside the span does not report OutOfRange")
            if len(ob.samples) < 2:
                ob.samples.append({"path": p.label(), "result": repr(r)[:60]})
        return ob.result(t0, {"functions": ["ContinuousOutput::from_segments, t_span, evaluate, find_segment", "Solution::sol", "DenseSegment::new/interpolate"],
                              "bounds": f"{n_seg} contiguous segments (right end = fl(xold+h)), query time symbolic; {len(paths)} paths", "path_generation_s": 0})

    unit.__name__ = f"c06_lookup_{n_seg}segments" + ("_back" if backward else "")
    return unit


# ============================================================================== solve_ivp head (option plumbing, zero interval)
def solve_ivp_head(tier="quick", seed=0):
    """solve_ivp's own code before it dispatches to a solver: the zero-length-interval shortcut and what
    it hands to the output handler (t_eval, dense flag, first_step no larger than the span, x0, n)."""
    from . import domains as D, model as M
    from .interp import Interp, explore, PathEnd, RustPanic, some, NONE
    from .stepper import IterPath, zabs
    t0 = time.time()
    ob = Ob("c03_solve_ivp_head")
    its = M.load_items("src/solve/solve_ivp.rs")
    paths = []

    def run(preset):
        dom = D.Round()
        got = {}

        class Handler:
            pass

        class Builder:
            def __init__(self, method):
                self.method = method
                self.args = []

        def ctor(it_, ode, t_eval, dense, first_step, x0, n):
            got.update(t_eval=t_eval, dense=dense, first_step=first_step, x0=x0, n=n)
            return Handler()

        def mk_builder(name):
            def f(it_):
                return Builder(name)
            return f

        def builder_method(mname):
            def f(it_, recv, arg_ns, env, node):
                if not isinstance(recv, Builder):
                    return NotImplemented
                vals = [it_.expr(a, env) for a in arg_ns]
                if mname == "build":
                    return recv
                if mname == "solve":
                    got["solver"] = recv.method
                    got["builder_args"] = recv.args
                    got["solve_args"] = vals
                    raise PathEnd("dispatched")
                recv.args.append((mname, vals))
                return recv
            return f

        class Ode:
            pass

        def m_n_events(it_, recv, arg_ns, env, node):
            return 0 if isinstance(recv, Ode) else NotImplemented

        def const_ctor(it_, method, x0, y0):
            return RStruct("ContinuousOutput", {"constant": True, "x0": x0})

        bm = {n_: builder_method(n_) for n_ in ("max_steps", "maybe_max_step", "maybe_first_step", "maybe_min_step", "maybe_nind1", "maybe_nind2",
                                                  "maybe_nind3", "jac_storage", "mass_storage", "build", "solve", "dense_output")}
        bm["n_events"] = m_n_events
        fns = {"DefaultSolOut::new": ctor, "ContinuousOutput::constant": const_ctor}
        for mn in ("RK4", "RK23", "DOPRI5", "DOP853", "RADAU", "BDF"):
            fns[f"{mn}::builder"] = mk_builder(mn)
        hooks = {"methods": bm, "fns": fns, "globals": {}, "ctors": {}}
        it = Interp(dom, its, hooks)
        it.preset = preset
        x0, xend, fs = dom.sym("x0"), dom.sym("xend"), dom.sym("first_step")
        dom.add(z3.And(zabs(x0.t) <= 10 ** 6, zabs(xend.t) <= 10 ** 6, fs.t > 0))
        te = [dom.sym("te0"), dom.sym("te1")]
        has_te = it.truth(dom.fresh_bool("has_t_eval"), "t_eval given")
        has_fs = it.truth(dom.fresh_bool("has_first_step"), "first_step given")
        dense = it.truth(dom.fresh_bool("dense"), "dense")
        y0 = RVec([dom.opaque("y0")])
        opts = RStruct("Options", {"t_eval": some(RVec(te)) if has_te else NONE, "dense_output": dense, "first_step": some(fs) if has_fs else NONE,
                                   "method": REnum(it.choose(["RK4", "RK23", "DOPRI5", "DOP853", "RADAU", "BDF"], "method")),
                                   "max_step": NONE, "min_step": NONE, "max_steps": NONE, "nind1": NONE, "nind2": NONE, "nind3": NONE,
                                   "jac_storage": REnum("Full"), "mass_storage": REnum("Identity"),
                                   "rtol": M.tol_scalar(dom.const(Fraction(1, 1000))), "atol": M.tol_scalar(dom.const(Fraction(1, 10 ** 6)))})
        try:
            r = it.call_fn("solve_ivp", [Ode(), x0, xend, y0, opts])
            out = ("return", r)
        except PathEnd as e:
            out = ("end", e.kind)
        except RustPanic as e:
            out = ("panic", str(e))
        return it.trail, IterPath(outcome=out, dom=dom, it=it, got=got, x0=x0, xend=xend, fs=fs, te=te, has_te=has_te, has_fs=has_fs, dense=dense, y0=y0)

    for dec, trail, p in explore(run, max_paths=500):
        p.decisions = dec
        p.trail = trail
        p.dom.solver = None
        paths.append(p)
    ob.paths = len(paths)
    for p in paths:
        if p.outcome[0] == "panic":
            ob.failed.append((f"solve_ivp panicked: {p.outcome[1]}", p.label(), {}, {}))
            continue
        if p.outcome[0] == "return":
            # zero-length interval (or empty state): Success, counters zero, samples = requested times at x0 (or [x0])
            r = p.outcome[1]
            ok = isinstance(r, REnum) and r.name == "Ok"
            ob.check(p, ok, "zero-length run does not return Ok")
            if ok:
                s = r.payload[0].f
                ob.check(p, zabs(p.xend.t - p.x0.t) < qv(Fraction(1, 10 ** 15)) * (1 + qv(4 * EPS)) + qv(4 * EPS) * zabs(p.x0.t), "shortcut taken although the interval is not (numerically) empty")
                ob.check(p, all(s[k] == 0 for k in ("nfev", "njev", "nlu", "nstep", "naccpt", "nrejct")), "zero-length run reports non-zero counters")
                ob.check(p, isinstance(s["status"], REnum) and s["status"].name == "Success", "zero-length run is not Success")
                t, y = s["t"].items(), s["y"].items()
                ob.check(p, len(t) == len(y), "zero-length run: t and y lengths differ")
                if p.has_te:
                    for tv in t:
                        ob.check(p, any(same(tv, q_) for q_ in p.te), "zero-length run reports a time that was not requested")
                        ob.check(p, zabs(tv.t - p.x0.t) <= qv(TOL) * (1 + qv(4 * EPS)) + qv(4 * EPS) * zabs(p.x0.t), "zero-length run reports a requested time that is not x0")
                else:
                    ob.check(p, len(t) == 1 and same(t[0], p.x0), "zero-length run without t_eval does not report [x0]")
                ob.check(p, (s["continuous_sol"].name == "Some") == p.dense, "zero-length run: dense output presence does not follow the option")
            continue
        g = p.got
        ob.check(p, same(g["x0"], p.x0) and g["n"] == 1, "handler constructed with the wrong x0 / dimension")
        ob.check(p, g["dense"] is p.dense, "handler's dense flag is not the option")
        if p.has_te:
            tv = g["t_eval"].payload[0].items()
            ob.check(p, len(tv) == 2 and all(same(a, b) for a, b in zip(tv, p.te)), "handler does not receive the requested times unchanged")
        else:
            ob.check(p, g["t_eval"].name == "None", "handler receives requested times although none were given")
        if p.has_fs:
            f = g["first_step"].payload[0] if g["first_step"].name == "Some" else None
            ob.check(p, f is not None, "first_step option is not handed to the handler")
            if f is not None:
                # the handler enforces a first output at x0 +- first_step: it must not lie beyond xend
                ob.check(p, zabs(f.t) <= zabs(p.xend.t - p.x0.t) * (1 + qv(4 * EPS)), "the first-output target handed to the handler lies beyond xend (first_step larger than the interval)")
        else:
            ob.check(p, g["first_step"].name == "None", "handler receives a first_step although none was given")
        ob.check(p, "solver" in g, "solve_ivp does not dispatch to a solver")
    # the solver is configured and called identically whatever the OUTPUT options are (t_eval, dense_output):
    # group the dispatched paths by (method, first_step given) and compare what reached the builder / solve()
    import re as _re

    def norm(v):
        return _re.sub(r"!\d+", "", repr(v))

    groups = {}
    for p in paths:
        if p.outcome == ("end", "dispatched"):
            key = (p.got["solver"], p.has_fs)
            sig = (norm(p.got["builder_args"]), norm([a for a in p.got["solve_args"] if not a.__class__.__name__ == "REnum" or True][:6]))
            groups.setdefault(key, []).append((sig, p))
    for key, lst in groups.items():
        ref = lst[0][0]
        for sig, p in lst[1:]:
            ob.check(p, sig[0] == ref[0], f"{key[0]}: the solver is configured differently depending on t_eval / dense_output (builder arguments {sig[0][:80]} vs {ref[0][:80]})")
    ob.check(paths[0], len(groups) >= 6, "not every method is dispatched")
    return ob.result(t0, {"functions": ["solve_ivp (zero-interval shortcut, handler construction, solver dispatch: builder arguments)"], "bounds": f"{len(paths)} paths; options symbolic (t_eval of length 2, first_step > 0, dense flag)"},
                     replay_fn=lambda f: replay.head_replay(f))
