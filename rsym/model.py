"""Environment model for symbolically executing the `solve` functions of /repo/src/methods:
nondeterministic right-hand side, callback, defaults of the solver struct, and the hooks the
interpreter needs (StepInterpolant::new, Evals/Steps, Tolerance indexing through the real
Index/IndexMut impls, Matrix through the real impls where possible)."""
import os
from fractions import Fraction

from . import rustparse as rp
from .interp import (Interp, RVec, RSlice, RStruct, REnum, ElemRef, FnVal, Closure, Unsupported, PathEnd,
                     RustPanic, SymEnum, NONE, some, Env)

REPO = os.environ.get("VERIF_REPO", "/repo")

METHOD_FILE = {"RK4": "rk4.rs", "RK23": "rk23.rs", "DOPRI5": "dopri5.rs", "DOP853": "dop853.rs",
               "RADAU": "radau.rs", "BDF": "bdf.rs"}


def load_items(*relpaths):
    items = []
    for r in relpaths:
        items += rp.parse_file(os.path.join(REPO, r))
    return items


def method_items(method, extra=()):
    return load_items("src/methods/" + METHOD_FILE[method], "src/methods/mod.rs", *extra)


class Recorder:
    """Collects what the executed code did on one path."""

    def __init__(self):
        self.ode_calls = []      # (t, [args], [outs])
        self.jac_calls = []
        self.callbacks = []      # dict(xold, x, y, interp)
        self.notes = []


class OdeModel:
    """`f` passed to solve(): ode() binds outputs to fresh symbols (exact domain: K<j>_<i>;
    round domain: opaque data)."""

    def __init__(self, dom, rec, n, prefix="K", on_call=None):
        self.dom, self.rec, self.n, self.prefix = dom, rec, n, prefix
        self.on_call = on_call


class SolOutModel:
    def __init__(self, rec, flag_policy=None):
        self.rec = rec
        self.flag_policy = flag_policy  # callable(k) -> REnum flag or SymEnum


def make_hooks(dom, rec, n, flag_policy=None, ode_out=None, on_ode=None, extra=None):
    """Returns the hooks dict for Interp."""

    def m_ode(it, recv, arg_ns, env, node):
        if not isinstance(recv, OdeModel):
            return NotImplemented
        t = it.expr(arg_ns[0], env)
        y = it.expr(arg_ns[1], env)
        out = it.expr(arg_ns[2], env)
        j = len(rec.ode_calls) + 1
        args = list(y.items())
        outs = []
        for i in range(len(out)):
            v = ode_out(j, i, t, args) if ode_out else (dom.opaque(f"k{j}_{i}") if dom.name == "round" else dom.sym(f"K{j}_{i}"))
            out.set(i, v)
            outs.append(v)
        rec.ode_calls.append((t, args, outs))
        if on_ode:
            on_ode(it, j, t, args)
        return None

    def m_jac(it, recv, arg_ns, env, node):
        if not isinstance(recv, OdeModel):
            return NotImplemented
        t = it.expr(arg_ns[0], env)
        y = it.expr(arg_ns[1], env)
        rec.jac_calls.append((t, list(y.items())))
        return None

    def m_mass(it, recv, arg_ns, env, node):
        if not isinstance(recv, OdeModel):
            return NotImplemented
        return None

    def m_solout(it, recv, arg_ns, env, node):
        if not isinstance(recv, SolOutModel):
            return NotImplemented
        xold = it.expr(arg_ns[0], env)
        x = it.expr(arg_ns[1], env)
        y = it.expr(arg_ns[2], env)
        interp = it.expr(arg_ns[3], env)
        k = len(rec.callbacks)
        cb = {"xold": xold, "x": x, "y": list(y.items()), "interp": interp,
              "n_ode": len(rec.ode_calls), "n_jac": len(rec.jac_calls)}
        rec.callbacks.append(cb)
        if recv.flag_policy is None:
            cb["y_after"] = list(y.items())
            return REnum("Continue")
        fl = recv.flag_policy(it, k, x, y)
        cb["y_after"] = list(y.items())
        return fl

    def ctor_interp(it, cont, xold, h, f):
        return RStruct("StepInterpolant", {"cont": cont, "xold": xold, "h": h, "interp_fn": f})

    def idx(it, base, i):
        if isinstance(base, REnum) and base.name in ("Scalar", "Vector"):
            v = it.call_fn("Tolerance::index", [base, i])
            return v.get() if isinstance(v, ElemRef) else v
        return NotImplemented

    def idx_set(it, base, i, v):
        if isinstance(base, REnum) and base.name in ("Scalar", "Vector"):
            place = it.call_fn("Tolerance::index_mut", [base, i])
            if not isinstance(place, ElemRef):
                raise Unsupported("Tolerance::index_mut did not yield a place")
            place.set(v)
            return None
        return NotImplemented

    hooks = {
        "methods": {"ode": m_ode, "jac": m_jac, "mass": m_mass, "solout": m_solout},
        "ctors": {"StepInterpolant": ctor_interp},
        "index": idx,
        "index_set": idx_set,
        "fns": {},
        "globals": {},
    }
    if extra:
        for k, v in extra.items():
            if isinstance(v, dict) and k in hooks:
                hooks[k].update(v)
            else:
                hooks[k] = v
    return hooks


def tol_scalar(v):
    return REnum("Scalar", [v], mutable=True)


def tol_vector(vs):
    return REnum("Vector", [RVec(vs)], mutable=True)


def solver_struct(it, method, overrides=None):
    """`self`: the Default impl of the method's config struct, read from the source."""
    s = it.call_fn(f"{method}::default", [])
    if not isinstance(s, RStruct):
        raise Unsupported("Default impl did not produce a struct")
    for k, v in (overrides or {}).items():
        if k not in s.f:
            raise Unsupported(f"solver struct has no field {k}")
        s.f[k] = v
    return s
