"""Environment model for symbolically executing the `solve` functions of /repo/src/methods:
nondeterministic right-hand side, callback, defaults of the solver struct, and the hooks the
interpreter needs (StepInterpolant::new, Evals/Steps, Tolerance indexing through the real
Index/IndexMut impls, Matrix through the real impls where possible)."""
import os
from fractions import Fraction

from . import rustparse as rp
from .interp import (Interp, RVec, RSlice, RStruct, REnum, ElemRef, FnVal, Closure, Unsupported, PathEnd,
                     RustPanic, SymEnum, NONE, some, Env)

REPO = os.environ.get("VERIF_REPO", "/repo")

METHOD_FILE = {"RK4": "rk4.rs", "RK23": "rk23.rs", "DOPRI5": "dopri5.rs", "DOP853": "dop853.rs",
               "RADAU": "radau.rs", "BDF": "bdf.rs"}


def load_items(*relpaths):
    items = []
    for r in relpaths:
        items += rp.parse_file(os.path.join(REPO, r))
    return items


def method_items(method, extra=()):
    return load_items("src/methods/" + METHOD_FILE[method], "src/methods/mod.rs", *extra)


class Recorder:
    """Collects what the executed code did on one path."""

    def __init__(self):
        self.ode_calls = []      # (t, [args], [outs])
        self.jac_calls = []
        self.callbacks = []      # dict(xold, x, y, interp)
        self.notes = []


class OdeModel:
    """`f` passed to solve(): ode() binds outputs to fresh symbols (exact domain: K<j>_<i>;
    round domain: opaque data)."""

    def __init__(self, dom, rec, n, prefix="K", on_call=None):
        self.dom, self.rec, self.n, self.prefix = dom, rec, n, prefix
        self.on_call = on_call


class SolOutModel:
    def __init__(self, rec, flag_policy=None):
        self.rec = rec
        self.flag_policy = flag_policy  # callable(k) -> REnum flag or SymEnum


def make_hooks(dom, rec, n, flag_policy=None, ode_out=None, on_ode=None, extra=None):
    """Returns the hooks dict for Interp."""

    def m_ode(it, recv, arg_ns, env, node):
        if not isinstance(recv, OdeModel):
            return NotImplemented
        t = it.expr(arg_ns[0], env)
        y = it.expr(arg_ns[1], env)
        out = it.expr(arg_ns[2], env)
        j = len(rec.ode_calls) + 1
        args = list(y.items())
        outs = []
        for i in range(len(out)):
            v = ode_out(j, i, t, args) if ode_out else (dom.opaque(f"k{j}_{i}") if dom.name == "round" else dom.sym(f"K{j}_{i}"))
            out.set(i, v)
            outs.append(v)
        rec.ode_calls.append((t, args, outs))
        if on_ode:
            on_ode(it, j, t, args)
        return None

    def m_jac(it, recv, arg_ns, env, node):
        if not isinstance(recv, OdeModel):
            return NotImplemented
        t = it.expr(arg_ns[0], env)
        y = it.expr(arg_ns[1], env)
        rec.jac_calls.append((t, list(y.items())))
        return None

    def m_mass(it, recv, arg_ns, env, node):
        if not isinstance(recv, OdeModel):
            return NotImplemented
        return None

    def m_solout(it, recv, arg_ns, env, node):
        if not isinstance(recv, SolOutModel):
            return NotImplemented
        xold = it.expr(arg_ns[0], env)
        x = it.expr(arg_ns[1], env)
        y = it.expr(arg_ns[2], env)
        interp = it.expr(arg_ns[3], env)
        k = len(rec.callbacks)
        cb = {"xold": xold, "x": x, "y": list(y.items()), "interp": interp,
              "n_ode": len(rec.ode_calls), "n_jac": len(rec.jac_calls)}
        rec.callbacks.append(cb)
        if recv.flag_policy is None:
            cb["y_after"] = list(y.items())
            return REnum("Continue")
        fl = recv.flag_policy(it, k, x, y)
        cb["y_after"] = list(y.items())
        return fl

    def ctor_interp(it, cont, xold, h, f):
        return RStruct("StepInterpolant", {"cont": cont, "xold": xold, "h": h, "interp_fn": f})

    def idx(it, base, i):
        if isinstance(base, REnum) and base.name in ("Scalar", "Vector"):
            v = it.call_fn("Tolerance::index", [base, i])
            return v.get() if isinstance(v, ElemRef) else v
        return NotImplemented

    def idx_set(it, base, i, v):
        if isinstance(base, REnum) and base.name in ("Scalar", "Vector"):
            place = it.call_fn("Tolerance::index_mut", [base, i])
            if not isinstance(place, ElemRef):
                raise Unsupported("Tolerance::index_mut did not yield a place")
            place.set(v)
            return None
        return NotImplemented

    class MatrixModel:
        """Opaque matrix: entries are free data."""

    def mk_matrix(it, *a):
        return MatrixModel()

    def lu_decomp(it, a, ip):
        r = it.choose(["Ok", "Err"], "lu_decomp")
        it.events.append(("lu", r))
        return REnum("Ok", [()]) if r == "Ok" else REnum("Err", [REnum("SingularMatrix")])

    def lin_solve(it, a, b, ip):
        for i in range(len(b)):
            b.set(i, dom.opaque("lin") if dom.name == "round" else dom.sym(f"lin{len(rec.notes)}_{i}"))
        rec.notes.append("lin_solve")
        return None

    def m_tol_iter(it, recv, arg_ns, env, node):
        if isinstance(recv, REnum) and recv.name in ("Scalar", "Vector"):
            n_ = it.expr(arg_ns[0], env)
            return [idx(it, recv, i) for i in range(n_)]
        return NotImplemented

    def change_d_model(it, d, order, factor, scratch):
        """bdf.rs change_d in the Round domain: the difference array is right-hand-side data, so the
        rescaling is abstracted to a havoc of its rows (its polynomial-preservation is C06's
        `c06_bdf_rescaling`, decided on the real function in the exact domain)."""
        for k in range(len(d)):
            row = d.get(k)
            for i in range(len(row)):
                row.set(i, dom.opaque("d"))
        rec.notes.append(("change_d", factor))
        return None

    def rms_model(it, values, scale):
        v = dom.opaque("rms")
        dom.add(v.t >= 0, defines=v)
        return v

    _idx_prev, _idx_set_prev = idx, idx_set

    def idx2(it, base, i):
        if isinstance(base, MatrixModel):
            return dom.opaque("mij") if dom.name == "round" else dom.fresh("mij")
        return _idx_prev(it, base, i)

    def idx_set2(it, base, i, v):
        if isinstance(base, MatrixModel):
            return None
        return _idx_set_prev(it, base, i, v)

    hooks = {
        "methods": {"ode": m_ode, "jac": m_jac, "mass": m_mass, "solout": m_solout, "iter": m_tol_iter},
        "ctors": {"StepInterpolant": ctor_interp},
        "index": idx2,
        "index_set": idx_set2,
        "fns": {"Matrix::from_storage": mk_matrix, "Matrix::zeros": mk_matrix, "lu_decomp": lu_decomp, "lin_solve": lin_solve,
                **({"change_d": change_d_model, "weighted_rms_scaled": rms_model} if dom.name == "round" else {}),
                "lu_decomp_complex": lambda it, ar, ai, ip: lu_decomp(it, ar, ip), "lin_solve_complex": lambda it, ar, ai, br, bi, ip: (lin_solve(it, ar, br, ip), lin_solve(it, ai, bi, ip))[0]},
        "globals": {},
    }
    if extra:
        for k, v in extra.items():
            if isinstance(v, dict) and k in hooks:
                hooks[k].update(v)
            else:
                hooks[k] = v
    return hooks


def tol_scalar(v):
    return REnum("Scalar", [v], mutable=True)


def tol_vector(vs):
    return REnum("Vector", [RVec(vs)], mutable=True)


def solver_struct(it, method, overrides=None):
    """`self`: the Default impl of the method's config struct, read from the source."""
    s = it.call_fn(f"{method}::default", [])
    if not isinstance(s, RStruct):
        raise Unsupported("Default impl did not produce a struct")
    for k, v in (overrides or {}).items():
        if k not in s.f:
            raise Unsupported(f"solver struct has no field {k}")
        s.f[k] = v
    return s
