"""R units for C01 (per-step error-control contract, tolerance plumbing) and C13 (equivalent
problems: scalar vs vector tolerance, time reflection, duplicated system) -- exact arithmetic."""
import time

import sympy as sp
import z3

from . import domains as D
from . import model as M
from . import sx
from . import tableau as TB
from .interp import Interp, RVec, RStruct, REnum, Unsupported, PathEnd, RustPanic, some, NONE, explore
from .units_rk import _result, SPEC


def _accept_info(method, n=1, tol="scalar", backward=False):
    """(accepted path, accept condition, y_new list) of the first iteration."""
    paths = sx.exact_first_iteration(method, n=n, tol=tol, backward=backward, havoc=False)
    acc = TB.accepted_paths(paths)
    if not acc:
        raise Unsupported(f"{method}: no accepted path")
    p = acc[0]
    cond = None
    K = [o for (_, _, outs) in p.rec.ode_calls for o in outs]
    for c, choice, _, why in p.trail:
        if isinstance(c, sp.core.relational.Relational) and any(k in c.free_symbols for k in K):
            cond = (c, choice)   # the first data-dependent decision of the iteration is the accept test
            break
    if cond is None:
        if method == "RK4":
            return p, (None, None), p.rec.callbacks[1]["y"], K   # fixed step: no error test
        raise Unsupported(f"{method}: accept decision not found")
    return p, cond, p.rec.callbacks[1]["y"], K


def c01_acceptance(method, n=1):
    """accepted  =>  |error estimate_i| <= sqrt(n) * (atol_i + rtol_i * max(|y_i|, |y_new_i|)) for every component."""

    def unit(tier="quick", seed=0):
        t0 = time.time()
        q = TB.Q()
        failed = []
        tol = "scalar" if n == 1 else "vector"
        p, (cond, choice), ynew, K = _accept_info(method, n=n, tol=tol)
        T = TB.extract(method)
        ests = [f for f in T.err_forms if abs(float(sum(f))) < 1e-12]
        if len(ests) != 1:
            raise Unsupported(f"{method}: expected one error-estimate form, found {len(ests)}")
        e = ests[0]
        h = TB.H0
        symmap = {}
        side = []
        rep = (None, "", "")
        cz = TB.to_z3(cond.lhs, symmap) <= TB.to_z3(cond.rhs, symmap) if isinstance(cond, sp.LessThan) else None
        if cz is None:
            # generic relational
            rel = {sp.LessThan: lambda a, b: a <= b, sp.StrictLessThan: lambda a, b: a < b, sp.GreaterThan: lambda a, b: a >= b,
                   sp.StrictGreaterThan: lambda a, b: a > b}[type(cond)]
            cz = rel(TB.to_z3(cond.lhs, symmap), TB.to_z3(cond.rhs, symmap))
        if not choice:
            cz = z3.Not(cz)
        side += symmap.get("_side", [])
        nst = len(p.rec.ode_calls)
        for i in range(n):
            Ki = [outs[i] for (_, _, outs) in p.rec.ode_calls]
            ye = h * sum(e[j] * Ki[j] for j in range(min(len(e), len(Ki))))
            y0 = sp.Symbol(f"y0_{i}", real=True)
            rt = sp.Symbol("rtol" if n == 1 else f"rtol_{i}", positive=True)
            at = sp.Symbol("atol" if n == 1 else f"atol_{i}", positive=True)
            bound = sp.sqrt(sp.Integer(n)) * (at + rt * sp.Max(sp.Abs(y0), sp.Abs(ynew[i])))
            yez = TB.to_z3(ye, symmap)
            bz = TB.to_z3(at + rt * sp.Max(sp.Abs(y0), sp.Abs(ynew[i])), symmap)
            pos = [symmap[s] > 0 for s in symmap if isinstance(s, sp.Symbol) and s.is_positive]
            # sqrt(n) handled by squaring: ye^2 <= n * bound^2
            ok, m = q.unsat(pos + list(symmap.get("_side", [])) + [cz, yez * yez > n * bz * bz * (1 + z3.RealVal(1) / 10 ** 9)],
                            f"{method} n={n} component {i}", True,
                            sample={"forall": "y, h, k_j, rtol, atol > 0", "obligation": "accepted => |ye_i| <= sqrt(n)(atol_i + rtol_i max(|y_i|,|ynew_i|))"}, timeout_ms=120000)
            if ok is False:
                failed.append(f"{method}: a step can be accepted although the error estimate of component {i} exceeds sqrt(n)*(atol + rtol*max(|y|,|y_new|))")
                if rep[0] is not True:
                    # a robust counterexample (clear margin) for the native replay, falling back to the first model
                    for margin in (4, 1.5):
                        s2 = z3.Solver()
                        s2.set("timeout", 60000)
                        s2.add(*(pos + list(symmap.get("_side", [])) + [cz, yez * yez > n * bz * bz * z3.RealVal(margin)]))
                        sm = [v for k_, v in symmap.items() if isinstance(k_, sp.Symbol)]
                        s2.add(*[z3.And(v > -1000, v < 1000) for v in sm])
                        if s2.check() == z3.sat:
                            m = s2.model()
                            break
                    from . import replay
                    byname = {str(k_): v for k_, v in symmap.items() if isinstance(k_, sp.Symbol)}
                    gv = lambda name, dflt=0.0: replay._zval(m, byname[name]) if name in byname else dflt
                    values = {"x0": gv("x0", 0.0), "h": gv("h0", 1.0), "y0": [gv(f"y0_{c}") for c in range(n)],
                              "rtol": [gv("rtol", 1e-3)] if n == 1 else [gv(f"rtol_{c}", 1e-3) for c in range(n)],
                              "atol": [gv("atol", 1e-6)] if n == 1 else [gv(f"atol_{c}", 1e-6) for c in range(n)],
                              "k": [[gv(str(outs[c])) for c in range(n)] for (_, _, outs) in p.rec.ode_calls]}
                    rep = replay.accept_replay(method, n, e, values)
        return _result(f"c01_acceptance_{method.lower()}_n{n}", q, t0, failed,
                       {"functions": [f"{method}::solve error-estimation block and accept test"], "bounds": f"n={n}; exact real arithmetic; all y,h,k, positive tolerances",
                        "trusted_base": ["local error control + order => tolerance-proportional global error (standard theorem, not decided)"]},
                       replayed=rep[0], replay_src=rep[1], replay_log=rep[2])

    unit.__name__ = f"c01_acceptance_{method.lower()}_n{n}"
    return unit


def _radau_tolerances(kind, n=2):
    """Run RADAU::solve up to the end of its 'Adjust tolerances' loop; returns (rtol, atol) values per component."""
    items = M.method_items("RADAU")
    dom = D.Exact()
    rec = M.Recorder()
    state = {}

    def on_let(it, stmt, v, env):
        pat = stmt[1]
        if pat[0] == "pbind" and pat[1] == "newton_tol":
            raise PathEnd("after_tolerances")
        if pat[0] == "pbind" and pat[1] in ("rtol", "atol"):
            state[pat[1]] = v
        if pat[0] == "ptuple" and isinstance(v, tuple):
            for sub, val in zip(pat[1], v):
                if sub[0] == "pbind" and sub[1] in ("rtol", "atol"):
                    state[sub[1]] = val
        return v

    hooks = M.make_hooks(dom, rec, n, extra={"on_let": on_let})
    it = Interp(dom, items, hooks)
    r0, a0 = sp.Symbol("rtol", positive=True), sp.Symbol("atol", positive=True)
    if kind == "scalar":
        rt, at = M.tol_scalar(r0), M.tol_scalar(a0)
    else:
        rt, at = M.tol_vector([r0] * n), M.tol_vector([a0] * n)
    slf = M.solver_struct(it, "RADAU", {})
    x0 = dom.sym("x0")
    span = sp.Symbol("span", positive=True)
    args = [slf, M.OdeModel(dom, rec, n), x0, RVec([dom.sym(f"y0_{i}") for i in range(n)]), x0 + span, rt, at, NONE]
    try:
        it.call_fn("RADAU::solve", args)
        raise Unsupported("RADAU::solve returned before the tolerance adjustment")
    except PathEnd as e:
        if e.kind != "after_tolerances":
            raise
    rtv, atv = state.get("rtol"), state.get("atol")
    if rtv is None or atv is None:
        # not rebound: the parameters themselves were transformed in place
        rtv, atv = rt, at
    out_r = [it.index(rtv, i) for i in range(n)]
    out_a = [it.index(atv, i) for i in range(n)]
    return out_r, out_a, r0, a0


def c01_radau_tolerance(tier="quick", seed=0):
    """Radau transforms the tolerances rtol' = 0.1*rtol^(2/3), atol' = rtol'*atol/rtol ONCE per
    component -- for a scalar tolerance too (Tolerance's Index/IndexMut impls are interpreted from
    methods/mod.rs) -- and scalar and constant-vector tolerances give the same effective values."""
    t0 = time.time()
    q = TB.Q()
    failed = []
    powf = sp.Function("powf")
    expm = None
    res = {}
    for kind in ("scalar", "vector"):
        rt, at, r0, a0 = _radau_tolerances(kind, n=2)
        res[kind] = (rt, at)
        for i in range(2):
            # expected: 0.1 * powf(r0, 2/3) with the code's own constants
            v = rt[i]
            pw = [a for a in v.atoms(sp.Function) if a.func.__name__ == "powf"]
            nested = any(any(isinstance(b, sp.Function) or b.has(powf) for b in a.args) for a in pw)
            n_pw = len(pw)
            if nested or n_pw != 1 or not (pw and pw[0].args[0] == r0):
                failed.append(f"Radau ({kind} tolerance, component {i}): effective rtol is {str(v)[:70]}, expected 0.1*rtol^(2/3) applied once")
            q.n += 1
    for i in range(2):
        if sp.simplify(res["scalar"][0][i] - res["vector"][0][i]) != 0 or sp.simplify(res["scalar"][1][i] - res["vector"][1][i]) != 0:
            failed.append(f"Radau: a scalar tolerance and the same value written as a constant vector give different effective tolerances (component {i})")
        q.n += 1
    q.quantified = q.n
    q.samples.append({"scalar rtol'": [str(v)[:60] for v in res["scalar"][0]], "vector rtol'": [str(v)[:60] for v in res["vector"][0]]})
    rep = (None, "", "")
    if failed:
        from . import replay
        rep = replay.radau_tolerance_replay()
    return _result("c01_radau_tolerance", q, t0, failed,
                   {"functions": ["RADAU::solve 'Adjust tolerances' loop", "Tolerance Index/IndexMut (methods/mod.rs)"], "bounds": "n=2; scalar and constant-vector tolerances; powf uninterpreted",
                    "note": "structural check of the symbolic result (term shape), no numeric query"},
                   replayed=rep[0], replay_src=rep[1], replay_log=rep[2])


# ============================================================================== C13
def c13_scalar_vector(method):
    def unit(tier="quick", seed=0):
        t0 = time.time()
        q = TB.Q()
        failed = []
        ps, (cs, chs), ys, Ks = _accept_info(method, n=2, tol="scalar")
        pv, (cv, chv), yv, Kv = _accept_info(method, n=2, tol="vector")
        sub = {sp.Symbol(f"rtol_{i}", positive=True): sp.Symbol("rtol", positive=True) for i in range(2)}
        sub.update({sp.Symbol(f"atol_{i}", positive=True): sp.Symbol("atol", positive=True) for i in range(2)})
        cvs = cv.subs(sub)
        symmap = {}
        a = TB.to_z3(cs.lhs - cs.rhs, symmap)
        b = TB.to_z3(cvs.lhs - cvs.rhs, symmap)
        pos = [symmap[s] > 0 for s in symmap if isinstance(s, sp.Symbol) and s.is_positive]
        ok, _ = q.unsat(pos + list(symmap.get("_side", [])) + [a != b], f"{method} accept test scalar vs vector", True,
                        sample={"identity": "error norm with Scalar(v) == error norm with Vector([v; n])"}, timeout_ms=120000)
        if ok is False or type(cs) != type(cvs):
            failed.append(f"{method}: the error test differs between a scalar tolerance and the same value as a constant vector")
        for i in range(2):
            if sp.expand(ys[i] - yv[i]) != 0:
                failed.append(f"{method}: new state differs between scalar and vector tolerance")
        return _result(f"c13_scalar_vector_{method.lower()}", q, t0, failed,
                       {"functions": [f"{method}::solve error norm", "Tolerance Index (methods/mod.rs)"], "bounds": "n=2, exact arithmetic"}, replayed=None)

    unit.__name__ = f"c13_scalar_vector_{method.lower()}"
    return unit


def c13_reflection(method):
    """Time reflection in exact arithmetic: the tableau, the dense weights and the accept test of a
    backward step are those of the forward step (h -> -h, k -> -k leaves y_new, the stage arguments and
    the error norm unchanged)."""

    def unit(tier="quick", seed=0):
        t0 = time.time()
        q = TB.Q()
        failed = []
        Tf = TB.extract(method, backward=False)
        Tb = TB.extract(method, backward=True)
        for nm in ("A", "b", "c"):
            if getattr(Tf, nm) != getattr(Tb, nm):
                failed.append(f"{method}: backward integration applies a different tableau ({nm})")
            q.n += 1
        if Tf.bth is not None and Tb.bth is not None and [sp.expand(x - y) for x, y in zip(Tf.bth, Tb.bth)] != [0] * len(Tf.bth):
            failed.append(f"{method}: backward integration uses a different interpolant")
        q.n += 1
        if Tf.next_k1_call != Tb.next_k1_call:
            failed.append(f"{method}: FSAL differs between forward and backward integration")
        failed += [v for v in Tb.violations if v not in Tf.violations]
        # accept test: substitute k -> -k (z' = -f) in the backward condition, must equal the forward one
        pf, (cf, chf), yf, Kf = _accept_info(method, n=1, backward=False)
        pb, (cb, chb), yb, Kb = _accept_info(method, n=1, backward=True)
        if cf is None or cb is None:
            if (cf is None) != (cb is None):
                failed.append(f"{method}: an error test exists in one direction only")
            q.quantified = q.n
            return _result(f"c13_reflection_{method.lower()}", q, t0, failed,
                           {"functions": [f"{method}::solve one iteration, forward and backward"], "bounds": "n=1, exact arithmetic"}, replayed=None)
        sub = {kb: -kf for kb, kf in zip(Kb, Kf)}
        cb2 = cb.subs(sub, simultaneous=True)
        symmap = {}
        a = TB.to_z3(cf.lhs - cf.rhs, symmap)
        b = TB.to_z3(cb2.lhs - cb2.rhs, symmap)
        pos = [symmap[s] > 0 for s in symmap if isinstance(s, sp.Symbol) and s.is_positive]
        ok, _ = q.unsat(pos + list(symmap.get("_side", [])) + [a != b], f"{method} accept test under reflection", True,
                        sample={"identity": "err(x,h,k) == err(-x,-h,-k)"}, timeout_ms=120000)
        if ok is False:
            failed.append(f"{method}: the error norm is not invariant under time reflection")
        q.quantified = q.n
        return _result(f"c13_reflection_{method.lower()}", q, t0, failed,
                       {"functions": [f"{method}::solve one iteration, forward and backward"], "bounds": "n=1, exact arithmetic (a pure rounding asymmetry is not visible here)"},
                       replayed=None)

    unit.__name__ = f"c13_reflection_{method.lower()}"
    return unit


def c13_duplicated(method):
    """Duplicating the system (n=2 with identical components) leaves the error norm unchanged."""

    def unit(tier="quick", seed=0):
        t0 = time.time()
        q = TB.Q()
        failed = []
        p1, (c1, ch1), y1, K1 = _accept_info(method, n=1)
        p2, (c2, ch2), y2, K2 = _accept_info(method, n=2)
        # identify component 1 of the duplicated system with component 0, and both with the scalar problem
        sub = {sp.Symbol("y0_1", real=True): sp.Symbol("y0_0", real=True)}
        for (_, _, outs2), (_, _, outs1) in zip(p2.rec.ode_calls, p1.rec.ode_calls):
            sub[outs2[0]] = outs1[0]
            sub[outs2[1]] = outs1[0]
        c2s = c2.subs(sub, simultaneous=True)
        symmap = {}
        a = TB.to_z3(c1.lhs - c1.rhs, symmap)
        b = TB.to_z3(c2s.lhs - c2s.rhs, symmap)
        pos = [symmap[s] > 0 for s in symmap if isinstance(s, sp.Symbol) and s.is_positive]
        ok, _ = q.unsat(pos + list(symmap.get("_side", [])) + [a != b], f"{method} duplicated system", True,
                        sample={"identity": "RMS norm of (e,e) == norm of (e)"}, timeout_ms=120000)
        if ok is False:
            failed.append(f"{method}: duplicating the system changes the error norm (not an RMS norm?)")
        return _result(f"c13_duplicated_{method.lower()}", q, t0, failed, {"functions": [f"{method}::solve error norm"], "bounds": "n=1 vs n=2, exact arithmetic"}, replayed=None)

    unit.__name__ = f"c13_duplicated_{method.lower()}"
    return unit


def c13_duplicated_hinit(tier="quick", seed=0):
    """C13's duplication clause for the automatic initial step: hinit (methods/mod.rs) executed symbolically (exact arithmetic)
    on a scalar problem and on two identical copies of it must return the same step."""
    t0 = time.time()
    q = TB.Q()
    failed = []
    res = {}
    for n in (1, 2):
        dom = D.Exact()
        rec = M.Recorder()
        hooks = M.make_hooks(dom, rec, n, ode_out=lambda j, i, t, args: sp.Symbol(f"F{j}", real=True))
        it = Interp(dom, M.method_items("DOPRI5"), hooks)
        f = M.OdeModel(dom, rec, n)
        y = RVec([sp.Symbol("y", real=True)] * n)
        f0 = RVec([sp.Symbol("f0", real=True)] * n)
        f1 = RVec([sp.Integer(0)] * n)
        y1 = RVec([sp.Integer(0)] * n)
        at, rt = M.tol_scalar(sp.Symbol("atol", positive=True)), M.tol_scalar(sp.Symbol("rtol", positive=True))
        outs = []

        def run(preset):
            it2 = Interp(D.Exact(), M.method_items("DOPRI5"), M.make_hooks(D.Exact(), M.Recorder(), n, ode_out=lambda j, i, t, args: sp.Symbol("F1", real=True)))
            it2.preset = preset
            d2 = it2.d
            r = it2.call_fn("hinit", [M.OdeModel(d2, M.Recorder(), n), sp.Symbol("x", real=True), RVec([sp.Symbol("y", real=True)] * n), sp.Integer(1),
                                      RVec([sp.Symbol("f0", real=True)] * n), RVec([sp.Integer(0)] * n), RVec([sp.Integer(0)] * n), 5,
                                      sp.Symbol("hmax", positive=True), M.tol_scalar(sp.Symbol("atol", positive=True)), M.tol_scalar(sp.Symbol("rtol", positive=True))])
            return it2.trail, (r, list(d2.pc))

        for dec, trail, (r, pc) in explore(run, max_paths=64):
            outs.append((tuple(dec), r, pc))
        res[n] = outs
    # compare path by path (same decision sequence = same branch of hinit): a numeric witness where the two differ
    import random
    rnd = random.Random(1)
    witness = None
    pairs = 0
    for dec1, r1, pc1 in res[1]:
        for dec2, r2, pc2 in res[2]:
            if dec1 != dec2:
                continue
            pairs += 1
            q.n += 1
            q.quantified += 1
            if sp.simplify(r1 - r2) == 0:
                continue
            # z3: can the two results differ on this branch?  (powf applications become symbols: equal arguments -> same symbol)
            pw = {}

            def unpow(e):
                return e.replace(lambda t: getattr(t, "func", None) is not None and str(t.func) == "powf", lambda t: pw.setdefault(t, sp.Symbol(f"powf_{len(pw)}", positive=True)))
            symmap = {}
            try:
                cons = [TB.to_z3(unpow(r1) - unpow(r2), symmap) != 0]
                for c, v in pc1 + pc2:
                    if isinstance(c, sp.core.relational.Relational):
                        rel = {sp.LessThan: lambda a, b: a <= b, sp.StrictLessThan: lambda a, b: a < b, sp.GreaterThan: lambda a, b: a >= b,
                               sp.StrictGreaterThan: lambda a, b: a > b, sp.Equality: lambda a, b: a == b, sp.Unequality: lambda a, b: a != b}[type(c)]
                        zc = rel(TB.to_z3(unpow(c.lhs), symmap), TB.to_z3(unpow(c.rhs), symmap))
                        cons.append(zc if v else z3.Not(zc))
                pos = [symmap[k_] > 0 for k_ in symmap if isinstance(k_, sp.Symbol) and k_.is_positive]
                okz, _ = q.unsat(pos + list(symmap.get("_side", [])) + cons, "hinit(1 copy) == hinit(2 copies) on a common branch", True,
                                 sample={"forall": "y, f0, f(x+h), tolerances, hmax", "obligation": "h(one copy) == h(two copies)"}, timeout_ms=30000)
                if okz is True:
                    continue
            except Exception:
                pass
            # the solver found (or could not exclude) a difference: concretise it
            for _ in range(200):
                vals = {sp.Symbol("y", real=True): rnd.choice([0.5, 1.0, 2.0, -1.5]), sp.Symbol("f0", real=True): rnd.choice([0.3, -1.0, 2.5]),
                        sp.Symbol("F1", real=True): rnd.choice([0.1, -0.7, 1.3, 3.0]), sp.Symbol("x", real=True): 0.0, sp.Symbol("hmax", positive=True): 10.0,
                        sp.Symbol("atol", positive=True): rnd.choice([1e-6, 1e-9]), sp.Symbol("rtol", positive=True): rnd.choice([1e-3, 1e-6])}
                sub = lambda e: e.subs(vals).replace(sp.Function("powf"), lambda a, b: sp.Pow(a, b))
                try:
                    ok = all(bool(sub(c)) == v for c, v in pc1 + pc2)
                    if not ok:
                        continue
                    a, b = float(sub(r1)), float(sub(r2))
                except Exception:
                    continue
                if abs(a - b) > 1e-9 * max(abs(a), abs(b)):
                    witness = (vals, a, b)
                    break
            if witness:
                break
        if witness:
            break
    if pairs == 0:
        raise Unsupported("hinit: no common path between n = 1 and n = 2")
    rep = (None, "", "")
    if witness:
        vals, a, b = witness
        failed.append("hinit: the automatic initial step of two identical copies differs from that of one copy (its norms are sums over the components, not RMS norms)")
        from . import replay
        rep = replay.dup_hinit_replay()
        rep = (rep[0], rep[1], f"symbolic: h(1 copy) = {a!r}, h(2 copies) = {b!r} at {dict((str(k), v) for k, v in vals.items())}\n" + rep[2])
    return _result("c13_duplicated_hinit", q, t0, failed,
                   {"functions": ["methods::hinit (all paths), n = 1 and n = 2 identical copies"], "bounds": "exact arithmetic; path-wise comparison of the returned step; witness search on inequivalent paths"},
                   replayed=rep[0], replay_src=rep[1], replay_log=rep[2])
