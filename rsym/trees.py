# rooted trees up to order p as nested tuples; gamma and Phi
from functools import lru_cache
import itertools
@lru_cache(None)
def trees(n):
    if n == 1: return [()]
    res = set()
    # partitions of n-1 into multiset of subtrees
    def parts(m, maxk):
        if m == 0: yield (); return
        for k in range(min(m, maxk), 0, -1):
            for rest in parts(m-k, k): yield (k,)+rest
    for p in parts(n-1, n-1):
        for combo in itertools.product(*[trees(k) for k in p]):
            res.add(tuple(sorted(combo)))
    return sorted(res)
def order(t): return 1 + sum(order(c) for c in t)
def gamma(t):
    g = order(t)
    for c in t: g *= gamma(c)
    return g
def phi(t, A, b_or_row, s):
    # returns vector Phi_i(t) for i in stages: Phi_i(leaf)=1; Phi_i([t1..tm]) = prod_k sum_j a_ij Phi_j(tk)
    def vec(t):
        if t == (): return [1]*s
        out = [1]*s
        for c in t:
            vc = vec(c)
            out = [out[i]*sum(A[i][j]*vc[j] for j in range(s)) for i in range(s)]
        return out
    return vec(t)
if __name__ == '__main__':
    print([len(trees(n)) for n in range(1, 9)])
