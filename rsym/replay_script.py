"""Scripted native replay for stepper-control violations found by engine R.

R's counterexample is a path through one loop iteration from an arbitrary loop-head state: an
accept/reject decision, callback flags, and a relation between x, h, xend. It is turned into
concrete native runs of the REAL solver: a right-hand side scripted per trial ('A' = all stage
values equal -> error estimate 0 -> accepted; 'R' = wildly different stage values -> rejected;
'N'/'I' = NaN/inf values) and a callback scripted per call ('C','M','X','I'), over a battery of
(x0, xend, first_step, max_step) configurations that exercise landing on xend, stretching the
last step, first_step >= span, exact division of the span, both directions. The facts are
re-judged on the native traces; only a native violation of the same kind confirms."""
import itertools
import math

from . import replay

STAGES = {"RK4": (4, 1), "RK23": (3, 1), "DOPRI5": (6, 1), "DOP853": (11, 1)}
EPS = 2.0 ** -52


def _f(v):
    return float(v) if not isinstance(v, str) else float(v)


def run(method, x0, xend, h0, max_step, max_steps, pattern, flags):
    st, pre = STAGES[method]
    d = replay.probe(["script", method, repr(x0), repr(xend), "none" if h0 is None else repr(h0),
                      "none" if max_step is None else repr(max_step), max_steps, pattern or "A", flags or "C", st, pre], timeout=20)
    return d


def judge(method, cfg, d):
    """Returns a list of (kind, description) native violations for one trace."""
    x0, xend, h0, max_step, max_steps, pattern, flags = cfg
    out = []
    if d.get("hang"):
        return [("hang", f"no return after {d['calls']} right-hand-side calls")]
    if not d.get("ok"):
        return []
    dirn = 1.0 if xend > x0 else -1.0
    S = max(abs(x0), abs(xend))
    slack = 4 * EPS * S
    lo, hi = min(x0, xend), max(x0, xend)
    ts = [_f(v) for v in d["t"]]
    cbs = [[_f(v) for v in c] for c in d["callbacks"]]
    status = d["status"]
    for i, t in enumerate(ts):
        if not (lo - slack <= t <= hi + slack):
            out.append(("times", f"right-hand side evaluated at t={t!r} outside [{lo},{hi}] (call {i + 1})"))
            break
    if cbs:
        if not (cbs[0][0] == x0 and cbs[0][1] == x0):
            out.append(("protocol", f"initial callback at xold={cbs[0][0]!r}, x={cbs[0][1]!r}, x0={x0!r}"))
        for k in range(1, len(cbs)):
            if cbs[k][0] != cbs[k - 1][1]:
                out.append(("protocol", f"callback {k}: xold={cbs[k][0]!r} is not the previous x={cbs[k - 1][1]!r}"))
                break
        for k in range(1, len(cbs)):
            if not (cbs[k][1] - cbs[k][0]) * dirn > 0:
                # zero-length landing steps at the resolution limit are excluded from the fact
                if abs(cbs[k][0] - xend) > slack:
                    out.append(("times", f"callback {k}: step from {cbs[k][0]!r} to {cbs[k][1]!r} does not move toward xend"))
                    break
            if not (lo - slack <= cbs[k][1] <= hi + slack):
                out.append(("times", f"callback {k}: x={cbs[k][1]!r} outside the span"))
                break
            if max_step is not None:
                ln = abs(cbs[k][1] - cbs[k][0])
                lands = abs(cbs[k][1] - xend) <= slack
                lim = max_step * (1.01 * (1 + 8 * EPS) if lands else 1.0) * (1 + 4 * EPS)
                if ln > lim:
                    out.append(("maxstep", f"callback {k}: accepted step of length {ln!r} > max_step {max_step!r}"))
                    break
        interrupted_at = None
        for k, fl in enumerate(flags):
            if fl == "I" and k < len(cbs):
                interrupted_at = k
                break
        lastx = cbs[-1][1]
        if status == "Success" and abs(lastx - xend) > slack:
            out.append(("status", f"Success reported but the last callback is at x={lastx!r}, xend={xend!r}"))
        if (status == "UserInterrupt") != (interrupted_at is not None):
            out.append(("protocol", f"status {status} vs Interrupt returned at callback {interrupted_at}"))
        if interrupted_at is not None:
            if len(cbs) != interrupted_at + 1:
                out.append(("protocol", f"{len(cbs) - interrupted_at - 1} callbacks after Interrupt"))
            if d["ode_calls"] != d["calls_at_cb"][interrupted_at]:
                out.append(("protocol", f"{d['ode_calls'] - d['calls_at_cb'][interrupted_at]} right-hand-side calls after Interrupt"))
        if interrupted_at is None and status != "Success" and abs(lastx - xend) <= slack and len(cbs) > 1 and status != "NeedLargerNMax":
            out.append(("status", f"covered the interval but status is {status}"))
        # ModifiedSolution: derivative re-evaluated at (x, y_written)
        ys = [_f(v) for v in d["y"]]
        for k, fl in enumerate(flags):
            if fl == "M" and k < len(cbs) and (interrupted_at is None or k < interrupted_at):
                idx = d["calls_at_cb"][k]
                if idx < len(ts):
                    if not (ts[idx] == cbs[k][1] and ys[idx] == 0.25):
                        out.append(("protocol", f"after ModifiedSolution at callback {k} the next evaluation is at (t={ts[idx]!r}, y={ys[idx]!r}), expected ({cbs[k][1]!r}, 0.25)"))
    # DOPRI family: the step after an accepted step that follows a rejection is not longer than it (1% when landing)
    if method in ("DOPRI5", "DOP853") and pattern.startswith("R") and "I" not in flags and "M" not in flags:
        k = len(pattern) - len(pattern.lstrip("R"))
        if pattern[k:k + 2] == "AA" and len(cbs) >= 3:
            l1, l2 = abs(cbs[1][1] - cbs[1][0]), abs(cbs[2][1] - cbs[2][0])
            if l2 > 1.01 * l1 * (1 + 8 * EPS):
                out.append(("oscillation", f"after {k} rejection(s) the accepted step of length {l1!r} is followed by a longer step {l2!r}"))
    # counters
    if d["nfev"] != d["ode_calls"]:
        out.append(("counters", f"nfev={d['nfev']} but the stepper made {d['ode_calls']} right-hand-side calls"))
    if d["njev"] != d["jac_calls"]:
        out.append(("counters", f"njev={d['njev']} but {d['jac_calls']} Jacobian calls"))
    if cbs and d["naccpt"] != len(cbs) - 1 and status != "ProbablyStiff":
        out.append(("counters", f"naccpt={d['naccpt']} but {len(cbs) - 1} accepted steps were reported"))
    if d["nstep"] < d["naccpt"]:
        out.append(("counters", f"nstep={d['nstep']} < naccpt={d['naccpt']}"))
    if max_steps < 1000:
        if d["nstep"] > max_steps + 1:
            out.append(("budget", f"nstep={d['nstep']} exceeds max_steps+1={max_steps + 1}"))
        if len(cbs) > max_steps + 2:
            out.append(("budget", f"{len(cbs) - 1} accepted steps with max_steps={max_steps}"))
    return out


def battery(method, backward):
    x0s = [(0.0, 1.0), (-1.0, 1.5 * 2.0 ** -53), (3.0, 3.75), (-2.0 ** 20, 1.5 * 2.0 ** -33)]
    if backward:
        x0s = [(b, a) for a, b in x0s] + [(1.0, 0.0)]
    for (x0, xend) in x0s:
        span = abs(xend - x0)
        for h0 in (span / 3, span, 2 * span, span / 1.005, span / 4, span * 0.3):
            for ms in (None, span / 2.5, span / 4):
                if ms is not None and h0 > ms:
                    continue
                yield x0, xend, h0, ms


PATTERNS = ["A", "AA", "AAA", "AAAA", "RA", "ARA", "AARA", "RRA", "ARRA", "RAA", "RARA", "AAAAAA", "RAAAAA", "ARAAAA", "AARAAA", "AAARAA"]
FLAGS = ["C", "CM", "CCM", "CX", "CCX", "I", "CI", "CCI", "M", "X", "CMI", "CXM"]

KINDS = {
    "times": ("times", "status", "maxstep", "hang", "oscillation"),
    "counters": ("counters",),
    "prefix": ("times", "protocol", "status", "maxstep"),
    "protocol": ("protocol", "status"),
    "budget": ("budget", "status"),
}


def hinit_probes(method, backward):
    """Automatic initial step: (a) max_step far larger than the interval and a slowly varying solution
    (|f| << |y|), (b) a tiny interval with f(x0) = 0 (hinit's fixed 1e-6 guess), (c) a tiny interval with a
    slowly varying solution: does hinit evaluate the right-hand side beyond xend?"""
    import os
    st, pre = STAGES[method]
    for pre_val, span, ms in (("1e-4", 1.0, "1e9"), ("0", 1e-9, "none"), ("1e-4", 1e-9, "none"), ("1e-4", 1e-9, "1e9"), ("1e-4", 1.0, "0.1"), ("1e-6", 100.0, "1.0")):
        x0, xend = (span, 0.0) if backward else (0.0, span)
        os.environ["SCRIPT_PRE"] = pre_val
        try:
            d = replay.probe(["script", method, repr(x0), repr(xend), "none", ms, 100000, "A", "C", st, 2], timeout=20)
        finally:
            os.environ.pop("SCRIPT_PRE", None)
        yield d, (x0, xend, None, None if ms == "none" else float(ms), 100000, "A", "C"), pre_val
    # a genuinely slow problem (y' = -1e-6 y): hinit wants far more than max_step
    for span, ms in ((100.0, 1.0), (10.0, 0.5)):
        x0, xend = (span, 0.0) if backward else (0.0, span)
        d = replay.probe(["smoothrun", method, repr(x0), repr(xend), "none", repr(ms), "1e-3", "C", "slow"], timeout=20)
        yield d, (x0, xend, None, ms, 100000, "A", "C"), "slow"


def confirm(method, backward, failed, kind):
    if method not in STAGES:
        return None, "", "scripted replay is available for the explicit methods only"
    want = KINDS.get(kind, (kind,))
    log = []
    n = 0
    if kind == "prefix" and method != "RK4":
        try:
            for d, cfg, pre_val in hinit_probes(method, backward):
                for k, desc in judge(method, cfg, d):
                    if k in want:
                        src = (f"probe smoothrun {method} {cfg[0]} {cfg[1]} none {cfg[3]} 1e-3 C slow  (y' = -1e-6 y, automatic initial step)" if pre_val == "slow"
                               else f"SCRIPT_PRE={pre_val} probe script {method} {cfg[0]} {cfg[1]} none {cfg[3]} 100000 A C  (automatic initial step)")
                        return True, src, f"native violation [{k}] {desc}"
        except Exception as e:
            log.append(f"hinit probe failed: {str(e)[:100]}")
    if kind == "counters" and method in ("DOPRI5", "DOP853") and any("evals.ode" in str(f[0]) for f in failed):
        # the stiffness-detection exit is only reachable on a long stiff run: y' = -2000 (y - cos t) until the solver gives up
        try:
            d = replay.probe(["stiff", method], timeout=120)
            if d.get("ok") and d["nfev"] != d["ode_calls"]:
                return True, f"probe stiff {method}   (real {method} on y' = -2000 (y - cos t), [0,20], until it stops with {d['status']})", f"native violation [counters] nfev={d['nfev']} but the stepper made {d['ode_calls']} right-hand-side calls (status {d['status']})"
            log.append(f"stiff run: nfev={d.get('nfev')} calls={d.get('ode_calls')} status={d.get('status')}")
        except Exception as e:
            log.append(f"stiff probe failed: {str(e)[:100]}")
    budgets = (100000,) if kind != "budget" else (1, 2, 3)
    for (x0, xend, h0, ms) in battery(method, backward):
        for pat in PATTERNS:
            for fl in (FLAGS if kind in ("protocol", "prefix", "times", "counters") else ["C"]):
                for mxs in budgets:
                    cfg = (x0, xend, h0, ms, mxs, pat, fl)
                    try:
                        d = run(method, *cfg)
                    except Exception as e:
                        log.append(f"probe failed for {cfg}: {str(e)[:100]}")
                        continue
                    n += 1
                    for k, desc in judge(method, cfg, d):
                        if k in want:
                            src = (f"probe script {method} {x0!r} {xend!r} {h0!r} {ms!r} {mxs} {pat} {fl}   "
                                   f"(scripted right-hand side / callback; /verif/replay/src/main.rs)")
                            log.append(f"native violation [{k}] {desc}")
                            log.append(f"after {n} native runs")
                            return True, src, "\n".join(log)
    log.append(f"{n} scripted native runs: no native violation of kind {want}")
    return None, "scripted battery (see rsym/replay_script.py)", "\n".join(log)
