"""Arithmetic domains for rsym.interp.

Exact  : sympy expressions over Q. Float operations are exact real operations; abs/min/max/
         sqrt/powf stay symbolic heads (Abs, Max, Min, sqrt, powf) unless their arguments are
         numbers. Comparisons of non-numeric expressions are symbolic booleans -> the interpreter
         forks (every fork is recorded in the path condition).
Round  : z3 reals. Every float operation `a o b` becomes a fresh variable r with
         r = (a o b)(1+d), |d| <= U (U = 2^-53): the standard model of binary64 rounding
         (sound in the normal range; overflow/underflow/NaN are outside, decided by engine K).
         Values derived from right-hand-side data are *opaque* (fresh unconstrained reals), which
         over-approximates them.
"""
from fractions import Fraction

import sympy as sp
import z3


# ======================================================================== Exact
class Exact:
    name = "exact"

    def __init__(self):
        self.pc = []  # path condition: list of (sympy relational, bool)
        self.counter = 0

    def reset(self):
        self.pc = []

    # -- construction
    def const(self, q):
        q = Fraction(q)
        return sp.Rational(q.numerator, q.denominator)

    def inf(self):
        return sp.oo

    def sym(self, name, **kw):
        return sp.Symbol(name, real=True, **kw)

    def fresh(self, base):
        self.counter += 1
        return sp.Symbol(f"{base}_{self.counter}", real=True)

    def fresh_bool(self, base):
        self.counter += 1
        return sp.Symbol(f"{base}_{self.counter}", real=True) > 0

    def is_float(self, v):
        return isinstance(v, sp.Expr)

    def concrete(self, v):
        if isinstance(v, sp.Basic) and v.is_number and v.is_finite:
            return Fraction(sp.Rational(v).p, sp.Rational(v).q) if v.is_rational else None
        return None

    # -- arithmetic
    def arith(self, op, a, b):
        if op == "+":
            return a + b
        if op == "-":
            return a - b
        if op == "*":
            return a * b
        if op == "/":
            return a / b
        raise ValueError(op)

    def neg(self, a):
        return -a

    def fabs(self, a):
        return sp.Abs(a)

    def fmax(self, a, b):
        if a.is_number and b.is_number:
            return a if a >= b else b
        return sp.Max(a, b)

    def fmin(self, a, b):
        if a.is_number and b.is_number:
            return a if a <= b else b
        return sp.Min(a, b)

    def sqrt(self, a):
        return sp.sqrt(a)

    def powi(self, a, k):
        return a ** int(k)

    def signum(self, a):
        if a.is_number:
            return sp.Integer(1) if a >= 0 else sp.Integer(-1)
        return sp.sign(a)

    def round(self, a):
        if a.is_number:
            return sp.Integer(int(sp.floor(a + sp.Rational(1, 2))))
        raise NotImplementedError("round of symbolic value")

    def is_nan(self, a):
        return False

    def is_finite(self, a):
        return True

    # -- comparisons / booleans
    def cmp(self, op, a, b):
        r = {"==": sp.Eq, "!=": sp.Ne, "<": sp.Lt, ">": sp.Gt, "<=": sp.Le, ">=": sp.Ge}[op](a, b)
        if r is sp.true:
            return True
        if r is sp.false:
            return False
        return r

    def b_not(self, a):
        return sp.Not(a)

    def b_and(self, a, b):
        return sp.And(a, b)

    def b_or(self, a, b):
        return sp.Or(a, b)

    def concrete_bool(self, c):
        if isinstance(c, bool):
            return c
        if c is sp.true:
            return True
        if c is sp.false:
            return False
        # a condition already decided on this path (syntactically identical, or its negation) keeps its value
        for pc, val in self.pc:
            if pc == c:
                return val
            try:
                if pc == sp.Not(c):
                    return not val
            except TypeError:
                pass
        return None

    def feasible(self, cond, value):
        # no solver pruning in the exact domain: both sides are explored, the path condition is kept
        return True

    def assume(self, cond, value):
        self.pc.append((cond, value))


def _exact_powf(self, a, e):
    if a.is_number and e.is_number and a == 1:
        return sp.Integer(1)
    return sp.Function("powf")(a, e)


Exact.powf = _exact_powf


# ======================================================================== Round
U = z3.RealVal(1) / z3.RealVal(2 ** 53)


class RV:
    """A float value in the Round domain: z3 real term, or opaque (data-derived)."""

    __slots__ = ("t", "opaque", "exact_const")

    def __init__(self, t, opaque=False, exact_const=None):
        self.t = t
        self.opaque = opaque
        self.exact_const = exact_const  # Fraction if this is a literal/const value

    def __repr__(self):
        return f"RV({'?' if self.opaque else self.t})"


class Round:
    """One relative-error variable per float operation. `exact_ops`: operations whose result is
    exact in binary64 and therefore carries no error (negation, abs, min, max, signum, and
    multiplication by +-1 / 0)."""

    name = "round"

    def __init__(self, rounding=True):
        self.rounding = rounding
        self.solver = z3.Solver()
        self.solver.set("timeout", 20000)
        self.n = 0
        self.side = []       # definitional constraints (always asserted)
        self.queries = 0
        self.solver_s = 0.0
        self.powf_f = z3.Function("powf", z3.RealSort(), z3.RealSort(), z3.RealSort())
        self.sqrt_f = z3.Function("sqrt", z3.RealSort(), z3.RealSort())
        self.n_ops = 0

    def push(self):
        self.solver.push()

    def pop(self):
        self.solver.pop()

    # -- construction
    def const(self, q):
        q = Fraction(q)
        return RV(z3.RealVal(q.numerator) / z3.RealVal(q.denominator) if q.denominator != 1 else z3.RealVal(q.numerator), exact_const=q)

    def inf(self):
        # +infinity as a very large number is NOT sound; callers that need it fork on Option instead
        v = self.fresh("inf")
        self.add(v.t >= z3.RealVal(2) ** 1000)
        return v

    def fresh(self, base, opaque=False):
        self.n += 1
        return RV(z3.Real(f"{base}!{self.n}"), opaque=opaque)

    def sym(self, name):
        return RV(z3.Real(name))

    def opaque(self, base="data"):
        return self.fresh(base, opaque=True)

    def fresh_bool(self, base):
        self.n += 1
        return z3.Bool(f"{base}!{self.n}")

    def add(self, c):
        self.side.append(c)
        self.solver.add(c)

    def is_float(self, v):
        return isinstance(v, RV)

    def concrete(self, v):
        if isinstance(v, RV) and v.exact_const is not None:
            return v.exact_const
        return None

    # -- rounding
    def rnd(self, exact_term, name="r"):
        if not self.rounding:
            return RV(exact_term)
        self.n_ops += 1
        r = self.fresh(name)
        dlt = self.fresh("d")
        self.add(z3.And(dlt.t >= -U, dlt.t <= U))
        self.add(r.t == exact_term * (1 + dlt.t))
        return r

    def arith(self, op, a, b):
        if a.opaque or b.opaque:
            return self.opaque()
        if a.exact_const is not None and b.exact_const is not None:
            # constant folding as rustc/LLVM would do it in binary64
            x, y = float(a.exact_const), float(b.exact_const)
            try:
                v = {"+": x + y, "-": x - y, "*": x * y, "/": x / y}[op]
                return self.const(Fraction(v))
            except ZeroDivisionError:
                return self.opaque("div0")
        if op == "*":
            for p, q in ((a, b), (b, a)):
                if p.exact_const is not None and abs(p.exact_const) in (0, 1) :
                    return RV(p.t * q.t)
                if p.exact_const is not None and _is_pow2(p.exact_const):
                    return RV(p.t * q.t)  # scaling by a power of two is exact (normal range)
        if op == "/" and b.exact_const is not None and _is_pow2(b.exact_const):
            return RV(a.t / b.t)
        ex = {"+": a.t + b.t, "-": a.t - b.t, "*": a.t * b.t, "/": a.t / b.t}[op]
        return self.rnd(ex, {"+": "add", "-": "sub", "*": "mul", "/": "div"}[op])

    def neg(self, a):
        if a.opaque:
            return self.opaque()
        if a.exact_const is not None:
            return self.const(-a.exact_const)
        return RV(-a.t)

    def fabs(self, a):
        if a.opaque:
            v = self.opaque("abs")
            self.add(v.t >= 0)
            v.opaque = True
            return v
        if a.exact_const is not None:
            return self.const(abs(a.exact_const))
        return RV(z3.If(a.t >= 0, a.t, -a.t))

    def fmax(self, a, b):
        if a.opaque or b.opaque:
            v = self.opaque("max")
            for p in (a, b):
                if not p.opaque:
                    self.add(v.t >= p.t)
            return v
        if a.exact_const is not None and b.exact_const is not None:
            return self.const(max(a.exact_const, b.exact_const))
        return RV(z3.If(a.t >= b.t, a.t, b.t))

    def fmin(self, a, b):
        if a.opaque or b.opaque:
            v = self.opaque("min")
            for p in (a, b):
                if not p.opaque:
                    self.add(v.t <= p.t)
            return v
        if a.exact_const is not None and b.exact_const is not None:
            return self.const(min(a.exact_const, b.exact_const))
        return RV(z3.If(a.t <= b.t, a.t, b.t))

    def sqrt(self, a):
        if a.exact_const is not None:
            import math
            return self.const(Fraction(math.sqrt(float(a.exact_const))))
        v = self.opaque("sqrt") if a.opaque else self.fresh("sqrt")
        self.add(v.t >= 0)
        if not a.opaque:
            # correctly rounded square root: v = sqrt(a)(1+d)
            s = self.fresh("sq")
            self.add(z3.And(s.t >= 0, s.t * s.t == a.t))
            r = self.rnd(s.t, "sqrt")
            return r
        return v

    def powi(self, a, k):
        if a.opaque:
            v = self.opaque("powi")
            if k % 2 == 0:
                self.add(v.t >= 0)
            return v
        r = a
        for _ in range(int(k) - 1):
            r = self.arith("*", r, a)
        return r

    def powf(self, a, e):
        """Contract model (same as the Kani stub): result >= 0; base >1/<1 and sign of the
        exponent bound the result by 1; no monotonicity."""
        if a.exact_const is not None and e.exact_const is not None:
            import math
            try:
                return self.const(Fraction(math.pow(float(a.exact_const), float(e.exact_const))))
            except (OverflowError, ValueError, ZeroDivisionError):
                pass
        v = self.fresh("powf")
        v.opaque = False
        self.add(v.t >= 0)
        if not a.opaque and not e.opaque:
            at, et = a.t, e.t
            self.add(z3.Implies(z3.And(at > 1, et < 0), v.t <= 1))
            self.add(z3.Implies(z3.And(at > 1, et > 0), v.t >= 1))
            self.add(z3.Implies(z3.And(at < 1, at > 0, et > 0), v.t <= 1))
            self.add(z3.Implies(z3.And(at < 1, at > 0, et < 0), v.t >= 1))
            self.add(z3.Implies(z3.Or(at == 1, et == 0), v.t == 1))
        elif not e.opaque and a.opaque:
            # base unknown (data-derived): only non-negativity
            pass
        return v

    def signum(self, a):
        if a.opaque:
            v = self.opaque("sgn")
            self.add(z3.Or(v.t == 1, v.t == -1))
            v.opaque = False
            return v
        if a.exact_const is not None:
            return self.const(1 if a.exact_const >= 0 else -1)
        return RV(z3.If(a.t >= 0, z3.RealVal(1), z3.RealVal(-1)))

    def round(self, a):
        raise NotImplementedError("round()")

    def is_nan(self, a):
        return False

    def is_finite(self, a):
        return True

    # -- comparisons
    def cmp(self, op, a, b):
        if a.opaque or b.opaque:
            return self.fresh_bool("cmp")
        if a.exact_const is not None and b.exact_const is not None:
            x, y = a.exact_const, b.exact_const
            return {"==": x == y, "!=": x != y, "<": x < y, ">": x > y, "<=": x <= y, ">=": x >= y}[op]
        return {"==": a.t == b.t, "!=": a.t != b.t, "<": a.t < b.t, ">": a.t > b.t, "<=": a.t <= b.t, ">=": a.t >= b.t}[op]

    def b_not(self, a):
        return z3.Not(a)

    def b_and(self, a, b):
        return z3.And(a, b)

    def b_or(self, a, b):
        return z3.Or(a, b)

    def concrete_bool(self, c):
        if isinstance(c, bool):
            return c
        if z3.is_true(c):
            return True
        if z3.is_false(c):
            return False
        return None

    def check(self, extra=()):
        import time
        t0 = time.time()
        self.queries += 1
        r = self.solver.check(*extra)
        self.solver_s += time.time() - t0
        return r

    def feasible(self, cond, value):
        c = cond if value else z3.Not(cond)
        r = self.check([c])
        return r != z3.unsat  # unknown counts as feasible (over-approximation)

    def assume(self, cond, value):
        self.solver.add(cond if value else z3.Not(cond))


def _is_pow2(q):
    q = abs(Fraction(q))
    if q == 0:
        return False
    n, d = q.numerator, q.denominator
    return (n & (n - 1)) == 0 and (d & (d - 1)) == 0
