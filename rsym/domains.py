"""Arithmetic domains for rsym.interp.

Exact  : sympy expressions over Q. Float operations are exact real operations; abs/min/max/
         sqrt/powf stay symbolic heads (Abs, Max, Min, sqrt, powf) unless their arguments are
         numbers. Comparisons of non-numeric expressions are symbolic booleans -> the interpreter
         forks (every fork is recorded in the path condition).
Round  : z3 reals. Every float operation `a o b` becomes a fresh variable r with
         r = (a o b)(1+d), |d| <= U (U = 2^-53): the standard model of binary64 rounding
         (sound in the normal range; overflow/underflow/NaN are outside, decided by engine K).
         Values derived from right-hand-side data are *opaque* (fresh unconstrained reals), which
         over-approximates them.
"""
from fractions import Fraction

import sympy as sp
import z3


# ======================================================================== Exact
class Exact:
    name = "exact"

    def __init__(self):
        self.pc = []  # path condition: list of (sympy relational, bool)
        self.counter = 0

    def reset(self):
        self.pc = []

    # -- construction
    def const(self, q):
        q = Fraction(q)
        return sp.Rational(q.numerator, q.denominator)

    def inf(self):
        return sp.oo

    def sym(self, name, **kw):
        return sp.Symbol(name, real=True, **kw)

    def fresh(self, base):
        self.counter += 1
        return sp.Symbol(f"{base}_{self.counter}", real=True)

    def fresh_bool(self, base):
        self.counter += 1
        return sp.Symbol(f"{base}_{self.counter}", real=True) > 0

    def opaque_float(self, base):
        return self.fresh(base)

    def is_float(self, v):
        return isinstance(v, sp.Expr)

    def concrete(self, v):
        if isinstance(v, sp.Basic) and v.is_number and v.is_finite:
            return Fraction(sp.Rational(v).p, sp.Rational(v).q) if v.is_rational else None
        return None

    # -- arithmetic
    def arith(self, op, a, b):
        if op == "+":
            return a + b
        if op == "-":
            return a - b
        if op == "*":
            return a * b
        if op == "/":
            return a / b
        raise ValueError(op)

    def neg(self, a):
        return -a

    def fabs(self, a):
        return sp.Abs(a)

    def fmax(self, a, b):
        if a.is_number and b.is_number:
            return a if a >= b else b
        return sp.Max(a, b)

    def fmin(self, a, b):
        if a.is_number and b.is_number:
            return a if a <= b else b
        return sp.Min(a, b)

    def sqrt(self, a):
        return sp.sqrt(a)

    def powi(self, a, k):
        return a ** int(k)

    def signum(self, a):
        if a.is_number:
            return sp.Integer(1) if a >= 0 else sp.Integer(-1)
        return sp.sign(a)

    def round(self, a):
        if a.is_number:
            return sp.Integer(int(sp.floor(a + sp.Rational(1, 2))))
        raise NotImplementedError("round of symbolic value")

    def is_nan(self, a):
        return False

    def is_finite(self, a):
        return True

    # -- comparisons / booleans
    def cmp(self, op, a, b):
        r = {"==": sp.Eq, "!=": sp.Ne, "<": sp.Lt, ">": sp.Gt, "<=": sp.Le, ">=": sp.Ge}[op](a, b)
        if r is sp.true:
            return True
        if r is sp.false:
            return False
        return r

    def b_not(self, a):
        return sp.Not(a)

    def b_and(self, a, b):
        return sp.And(a, b)

    def b_or(self, a, b):
        return sp.Or(a, b)

    def concrete_bool(self, c):
        if isinstance(c, bool):
            return c
        if c is sp.true:
            return True
        if c is sp.false:
            return False
        # a condition already decided on this path (syntactically identical, or its negation) keeps its value
        for pc, val in self.pc:
            if pc == c:
                return val
            try:
                if pc == sp.Not(c):
                    return not val
            except TypeError:
                pass
        return None

    def feasible(self, cond, value):
        # no solver pruning in the exact domain: both sides are explored, the path condition is kept
        return True

    def assume(self, cond, value):
        self.pc.append((cond, value))


def _exact_powf(self, a, e):
    if a.is_number and e.is_number and a == 1:
        return sp.Integer(1)
    return sp.Function("powf")(a, e)


Exact.powf = _exact_powf


# ======================================================================== Round
U = z3.RealVal(1) / z3.RealVal(2 ** 53)


class RV:
    """A float value in the Round domain: z3 real term, or opaque (data-derived).
    lo/hi: constant bounds known structurally (Fractions or None)."""

    __slots__ = ("t", "opaque", "exact_const", "lo", "hi", "quot")

    def __init__(self, t, opaque=False, exact_const=None, lo=None, hi=None):
        self.quot = None   # (numerator, denominator) if this value is the rounded quotient of two tracked values
        self.t = t
        self.opaque = opaque
        self.exact_const = exact_const  # Fraction if this is a literal/const value
        self.lo = exact_const if exact_const is not None else lo
        self.hi = exact_const if exact_const is not None else hi

    def __repr__(self):
        return f"RV({'?' if self.opaque else self.t})"


def _q(q):
    q = Fraction(q)
    return z3.RealVal(q.numerator) / z3.RealVal(q.denominator) if q.denominator != 1 else z3.RealVal(q.numerator)


def _abs(t):
    return z3.If(t >= 0, t, -t)


class Round:
    """Reals with the standard model of binary64 rounding: the result r of a float operation with
    exact value e satisfies |r - e| <= U*|e| (U = 2^-53; normal range, no NaN). Operations that
    are exact in binary64 carry no error (negation, abs, min, max, signum, scaling by a power of
    two). Products/quotients of two non-constant values are linearised with the structurally
    known constant bounds of one factor (sound over-approximation); if no bounds are known the
    exact nonlinear constraint is kept (`nonlinear` counts those)."""

    name = "round"

    def __init__(self, rounding=True, feas_timeout_ms=4000):
        self.rounding = rounding
        self.solver = z3.Solver()
        self.feas_timeout_ms = feas_timeout_ms
        self.n = 0
        self.side = []
        self.queries = 0
        self.solver_s = 0.0
        self.n_ops = 0
        self.nonlinear = 0
        self.free_bools = set()
        self.globals_ = []
        self.defs = {}
        self.path = []
        self.rounded = []
        self.float_names = set()
        self.rnd_cache = {}

    # -- construction
    def const(self, q):
        q = Fraction(q)
        return RV(_q(q), exact_const=q)

    def inf(self):
        v = self.fresh("inf")
        self.add(v.t >= z3.RealVal(2) ** 1000, defines=v)
        return v

    def fresh(self, base, opaque=False):
        self.n += 1
        nm = f"{base}!{self.n}"
        self.float_names.add(nm)
        return RV(z3.Real(nm), opaque=opaque)

    def sym(self, name):
        self.float_names.add(name)
        return RV(z3.Real(name))

    def opaque(self, base="data"):
        return self.fresh(base, opaque=True)

    def opaque_float(self, base):
        return self.fresh(base, opaque=True)

    def fresh_bool(self, base):
        self.n += 1
        b = z3.Bool(f"{base}!{self.n}")
        self.free_bools.add(b.get_id())
        return b

    def add(self, c, defines=None):
        """defines: the fresh value this constraint introduces (definitional); None = global assumption."""
        if defines is None:
            self.globals_.append(c)
        else:
            self.defs.setdefault(str(defines.t), []).append(c)
        self.side.append(c)
        self.solver.add(c)

    def is_float(self, v):
        return isinstance(v, RV)

    def concrete(self, v):
        if isinstance(v, RV) and v.exact_const is not None:
            return v.exact_const
        return None

    # -- sliced obligation check: only the definitions the fact and the path conditions depend on
    def check_sliced(self, negated_fact, timeout_ms=20000):
        """Two stages: without the monotone-rounding axioms first (they only strengthen the
        context, so `unsat` is already conclusive), with them if that is not enough."""
        r = self._check_sliced(negated_fact, min(timeout_ms, 5000), axioms=False)
        if r == z3.unsat:
            return r
        return self._check_sliced(negated_fact, timeout_ms, axioms=True)

    def _check_sliced(self, negated_fact, timeout_ms, axioms):
        import time
        t0 = time.time()
        need = set()
        todo = []

        def vars_of(e, acc):
            stack = [e]
            seen = set()
            while stack:
                x = stack.pop()
                if x.get_id() in seen:
                    continue
                seen.add(x.get_id())
                if z3.is_const(x) and x.decl().kind() == z3.Z3_OP_UNINTERPRETED:
                    acc.add(str(x))
                else:
                    stack.extend(x.children())

        roots = [negated_fact] + self.path + self.globals_
        for r in roots:
            acc = set()
            vars_of(r, acc)
            todo.extend(acc)
        cons = []
        while todo:
            v = todo.pop()
            if v in need:
                continue
            need.add(v)
            for c in self.defs.get(v, ()):
                cons.append(c)
                acc = set()
                vars_of(c, acc)
                todo.extend(a for a in acc if a not in need)
        s = z3.Solver()
        s.set("timeout", timeout_ms)
        for c in self.globals_ + self.path + cons:
            s.add(c)
        # rounding to nearest is monotone, and the identity on binary64 values: for the rounded
        # operations in the cone, e1 <= e2 => fl(e1) <= fl(e2), and for every program value w
        # (a binary64 number) e <= w => fl(e) <= w, e >= w => fl(e) >= w.
        rs = [(r, e) for (r, e) in self.rounded if str(r) in need] if axioms else []
        ws = [z3.Real(v) for v in need if not v.startswith(("cmp!", "icmp!", "lh_xout_is", "flag")) and v in self.float_names]
        for i, (r1, e1) in enumerate(rs):
            for (r2, e2) in rs[i + 1:]:
                s.add(z3.Implies(e1 <= e2, r1 <= r2))
                s.add(z3.Implies(e2 <= e1, r2 <= r1))
            for w in ws:
                if str(w) == str(r1):
                    continue
                s.add(z3.Implies(e1 <= w, r1 <= w))
                s.add(z3.Implies(e1 >= w, r1 >= w))
        s.add(negated_fact)
        r = s.check()
        self.queries += 1
        self.solver_s += time.time() - t0
        self.last_sliced = s
        return r

    # -- rounding
    def rnd(self, e, name="r", lo=None, hi=None):
        """r = fl(e): |r - e| <= U*|e|."""
        if not self.rounding:
            return RV(e, lo=lo, hi=hi)
        key = e.get_id()
        if key in self.rnd_cache:
            return self.rnd_cache[key][0]   # float operations are deterministic: same operands, same result
        self.n_ops += 1
        r = self.fresh(name)
        self.rnd_cache[key] = (r, e)
        u = _q(Fraction(1, 2 ** 53))
        ae = _abs(e)
        self.add(z3.And(r.t - e <= u * ae, e - r.t <= u * ae), defines=r)
        self.rounded.append((r.t, e))
        r.lo, r.hi = _widen(lo, hi)
        return r

    def _between(self, name, lo_t, hi_t, lo=None, hi=None):
        """fresh r with lo_t*(1-+U) <= r <= hi_t*(1+-U) (rounded value of something in [lo_t, hi_t])."""
        self.n_ops += 1
        r = self.fresh(name)
        u = _q(Fraction(1, 2 ** 53))
        self.add(z3.And(r.t >= lo_t - u * _abs(lo_t), r.t <= hi_t + u * _abs(hi_t)), defines=r)
        r.lo, r.hi = _widen(lo, hi)
        return r

    def arith(self, op, a, b):
        if op == "*" and not (a.opaque or b.opaque):
            # fl(fl(n/d) * d) = n (1+e1)(1+e2): the rescaling idiom `h *= target / h` keeps its meaning
            for p, q in ((a, b), (b, a)):
                if p.quot is not None and p.quot[1].t.eq(q.t):
                    num = p.quot[0]
                    e2 = _q(Fraction(2, 2 ** 53) + Fraction(1, 2 ** 106))
                    lo_t = z3.If(num.t >= 0, num.t * (1 - e2), num.t * (1 + e2))
                    hi_t = z3.If(num.t >= 0, num.t * (1 + e2), num.t * (1 - e2))
                    self.n_ops += 1
                    r = self.fresh("mulq")
                    self.add(z3.And(r.t >= lo_t, r.t <= hi_t), defines=r)
                    if num.lo is not None and num.lo >= 0:
                        r.lo = Fraction(0)
                    return r
        r = self._arith(op, a, b)
        if op == "/" and not (a.opaque or b.opaque) and r.quot is None and not r.opaque:
            if r.exact_const is None:
                r.quot = (a, b)
        return r

    def _arith(self, op, a, b):
        if a.opaque or b.opaque:
            other = b if a.opaque else a
            both = a.opaque and b.opaque
            if op in ("*", "/"):
                c = b.exact_const if (op == "/" or a.opaque) else a.exact_const
                if c is None and op == "*":
                    c = a.exact_const if b.opaque else None
                if c is not None and c != 0 and not both:
                    # data value scaled by a constant: exact for +-1 and powers of two, rounded otherwise
                    dv = a if a.opaque else b
                    if op == "/" and not a.opaque:
                        pass  # constant / data: sign rule below
                    else:
                        e = dv.t * _q(c) if op == "*" else dv.t / _q(c)
                        if abs(c) == 1 or _is_pow2(c):
                            return RV(e, opaque=True)
                        r = self.rnd(e, "dmulc")
                        r.opaque = True
                        return r
                # data-derived product/quotient: magnitude free, but the sign rule is kept
                r = self._sign_only("dmul" if op == "*" else "ddiv", a, b, op == "/")
                r.opaque = True
                return r
            if both or other.exact_const is not None:
                return self.opaque()
            # tracked (time-like) value +- data value: keep the rounded sum (the data value may be constrained by comparisons)
            e = a.t + b.t if op == "+" else a.t - b.t
            return self.rnd(e, "dadd")
        if a.exact_const is not None and b.exact_const is not None:
            x, y = float(a.exact_const), float(b.exact_const)
            try:
                v = x + y if op == "+" else x - y if op == "-" else x * y if op == "*" else x / y
                return self.const(Fraction(v))
            except (ZeroDivisionError, OverflowError, ValueError):
                return self.opaque("div0")
        if op in ("+", "-"):
            e = a.t + b.t if op == "+" else a.t - b.t
            lo = hi = None
            if op == "+":
                lo = a.lo + b.lo if a.lo is not None and b.lo is not None else None
                hi = a.hi + b.hi if a.hi is not None and b.hi is not None else None
            else:
                lo = a.lo - b.hi if a.lo is not None and b.hi is not None else None
                hi = a.hi - b.lo if a.hi is not None and b.lo is not None else None
            r = self.rnd(e, "add" if op == "+" else "sub", lo, hi)
            if self.rounding:
                # rounding is monotone and the identity on binary64 values: adding a non-negative
                # (non-positive) quantity to the float a cannot round below (above) a -- and likewise for b
                sgn = 1 if op == "+" else -1
                if b.lo is not None and b.lo >= 0:
                    self.add(r.t >= a.t if sgn > 0 else r.t <= a.t, defines=r)
                if b.hi is not None and b.hi <= 0:
                    self.add(r.t <= a.t if sgn > 0 else r.t >= a.t, defines=r)
                if op == "+" and a.lo is not None and a.lo >= 0:
                    self.add(r.t >= b.t, defines=r)
                if op == "+" and a.hi is not None and a.hi <= 0:
                    self.add(r.t <= b.t, defines=r)
            return r
        if op == "*":
            for p, q in ((a, b), (b, a)):
                if p.exact_const is not None:
                    c = p.exact_const
                    lo, hi = _scale_bounds(q, c)
                    if abs(c) in (0, 1) or _is_pow2(c):
                        return RV(p.t * q.t, lo=lo, hi=hi)
                    return self.rnd(p.t * q.t, "mulc", lo, hi)
            for p, q in ((a, b), (b, a)):
                if p.lo is not None and p.hi is not None and p.lo >= 0:
                    # a factor that is at most 1 structurally: ask the solver whether it is in fact <= 19/20
                    # on this path (step-shrinking factors), to keep the linearisation tight enough
                    if Fraction(19, 20) < p.hi <= Fraction(1) + Fraction(1, 2 ** 40):
                        if self.check([p.t > _q(Fraction(19, 20))], fast=True) == z3.unsat:
                            p.hi = Fraction(19, 20)
                    # q * [lo,hi]
                    lo_t = z3.If(q.t >= 0, q.t * _q(p.lo), q.t * _q(p.hi))
                    hi_t = z3.If(q.t >= 0, q.t * _q(p.hi), q.t * _q(p.lo))
                    self.add(z3.And(p.t >= _q(p.lo), p.t <= _q(p.hi)), defines=p)
                    return self._between("mulb", lo_t, hi_t)
            return self._sign_only("mul", a, b, False)
        if op == "/":
            if b.exact_const is not None:
                c = b.exact_const
                if c == 0:
                    return self.opaque("div0")
                lo, hi = _scale_bounds(a, 1 / c)
                if _is_pow2(c):
                    return RV(a.t / b.t, lo=lo, hi=hi)
                return self.rnd(a.t / b.t, "divc", lo, hi)
            if b.lo is not None and b.hi is not None and b.lo > 0:
                lo_t = z3.If(a.t >= 0, a.t / _q(b.hi), a.t / _q(b.lo))
                hi_t = z3.If(a.t >= 0, a.t / _q(b.lo), a.t / _q(b.hi))
                self.add(z3.And(b.t >= _q(b.lo), b.t <= _q(b.hi)), defines=b)
                lo = hi = None
                if a.lo is not None and a.lo >= 0:
                    lo = a.lo / b.hi
                if a.hi is not None and a.hi >= 0 and a.lo is not None and a.lo >= 0:
                    hi = a.hi / b.lo
                r = self._between("divb", lo_t, hi_t, lo, hi)
                # keep the monotone relation to the divisor at a few break points (the interval linearisation alone forgets
                # that a divisor that turns out to be >= 1.1 on the path shrinks the quotient): b >= c => |a/b| <= |a|/c, b <= c => >=
                u = _q(Fraction(1, 2 ** 53))
                for c in (Fraction(1), Fraction(11, 10), Fraction(2)):
                    if b.lo < c < b.hi:
                        self.add(z3.And(z3.Implies(b.t >= _q(c), _abs(r.t) <= _abs(a.t) / _q(c) * (1 + u)),
                                        z3.Implies(b.t <= _q(c), _abs(r.t) >= _abs(a.t) / _q(c) * (1 - u))), defines=r)
                return r
            lb = self._solver_lower_bound(b)
            if lb is not None:
                # b >= lb > 0 on this path (decided by the solver): a/b lies between 0 and a/lb
                zero = z3.RealVal(0)
                lo_t = z3.If(a.t >= 0, zero, a.t / _q(lb))
                hi_t = z3.If(a.t >= 0, a.t / _q(lb), zero)
                r = self._between("divs", lo_t, hi_t)
                # sign is preserved exactly (no underflow in the normal range)
                self.add(z3.And(z3.Implies(a.t > 0, r.t > 0), z3.Implies(a.t < 0, r.t < 0), z3.Implies(a.t == 0, r.t == 0)), defines=r)
                return r
            return self._sign_only("div", a, b, True)
        raise ValueError(op)

    def _sign_only(self, name, a, b, is_div):
        """Product / quotient of two values without known constant bounds: only the sign rule is
        kept (the magnitude is free) -- a sound over-approximation that keeps the queries linear."""
        self.nonlinear += 1
        r = self.fresh(name + "s")
        pos = z3.Or(z3.And(a.t > 0, b.t > 0), z3.And(a.t < 0, b.t < 0))
        neg = z3.Or(z3.And(a.t > 0, b.t < 0), z3.And(a.t < 0, b.t > 0))
        cs = [z3.Implies(pos, r.t > 0), z3.Implies(neg, r.t < 0)]
        if is_div:
            cs.append(z3.Implies(z3.And(a.t == 0, b.t != 0), r.t == 0))
        else:
            cs.append(z3.Implies(z3.Or(a.t == 0, b.t == 0), r.t == 0))
        self.add(z3.And(*cs), defines=r)
        return r

    def _solver_lower_bound(self, b):
        for c in (Fraction(11, 10), Fraction(1), Fraction(1, 10), Fraction(1, 2 ** 40)):
            if self.check([b.t < _q(c)], fast=True) == z3.unsat:
                return c
        return None

    def neg(self, a):
        if a.opaque:
            return RV(-a.t, opaque=True)
        if a.exact_const is not None:
            return self.const(-a.exact_const)
        return RV(-a.t, lo=None if a.hi is None else -a.hi, hi=None if a.lo is None else -a.lo)

    def fabs(self, a):
        if a.opaque:
            return RV(_abs(a.t), opaque=True, lo=Fraction(0))
        if a.exact_const is not None:
            return self.const(abs(a.exact_const))
        lo, hi = Fraction(0), None
        if a.lo is not None and a.hi is not None:
            hi = max(abs(a.lo), abs(a.hi))
            if a.lo >= 0:
                lo = a.lo
        return RV(_abs(a.t), lo=lo, hi=hi)

    def fmax(self, a, b):
        if a.opaque or b.opaque:
            return RV(z3.If(a.t >= b.t, a.t, b.t), opaque=True, lo=max([x for x in (a.lo, b.lo) if x is not None], default=None))
        if a.exact_const is not None and b.exact_const is not None:
            return self.const(max(a.exact_const, b.exact_const))
        lo = max([x for x in (a.lo, b.lo) if x is not None], default=None)
        hi = max(a.hi, b.hi) if a.hi is not None and b.hi is not None else None
        return RV(z3.If(a.t >= b.t, a.t, b.t), lo=lo, hi=hi)

    def fmin(self, a, b):
        if a.opaque or b.opaque:
            return RV(z3.If(a.t <= b.t, a.t, b.t), opaque=True, hi=min([x for x in (a.hi, b.hi) if x is not None], default=None))
        if a.exact_const is not None and b.exact_const is not None:
            return self.const(min(a.exact_const, b.exact_const))
        hi = min([x for x in (a.hi, b.hi) if x is not None], default=None)
        lo = min(a.lo, b.lo) if a.lo is not None and b.lo is not None else None
        return RV(z3.If(a.t <= b.t, a.t, b.t), lo=lo, hi=hi)

    def sqrt(self, a):
        if a.exact_const is not None and a.exact_const >= 0:
            import math
            return self.const(Fraction(math.sqrt(float(a.exact_const))))
        v = self.opaque("sqrt")
        self.add(v.t >= 0, defines=v)
        self.add(z3.Implies(a.t > 0, v.t > 0), defines=v)
        v.lo = Fraction(0)
        return v

    def powi(self, a, k):
        if a.opaque:
            v = self.opaque("powi")
            if k % 2 == 0:
                self.add(v.t >= 0, defines=v)
            return v
        r = a
        for _ in range(int(k) - 1):
            r = self.arith("*", r, a)
        return r

    def powf(self, a, e):
        """Contract model (same as the Kani stub): result >= 0; base >1/<1 and sign of the
        exponent bound the result by 1; no monotonicity. The result is a *tracked* value."""
        if a.exact_const is not None and e.exact_const is not None:
            import math
            try:
                return self.const(Fraction(math.pow(float(a.exact_const), float(e.exact_const))))
            except (OverflowError, ValueError, ZeroDivisionError):
                pass
        v = self.fresh("powf")
        self.add(v.t >= 0, defines=v)
        self.add(z3.Implies(a.t > 0, v.t > 0), defines=v)   # positive base: positive result (normal range, no underflow)
        v.lo = Fraction(0)
        if e.exact_const is not None:
            ec = e.exact_const
            if ec == 0:
                return self.const(1)
            at = a.t
            # base on the far side of 1 on this whole path (decided by the solver): the bound becomes structural
            if (ec < 0 and self.check([at <= 1], fast=True) == z3.unsat) or (ec > 0 and self.check([z3.Or(at >= 1, at < 0)], fast=True) == z3.unsat):
                v.hi = Fraction(1)
            if ec < 0:
                self.add(z3.Implies(at > 1, v.t <= 1), defines=v)
                self.add(z3.Implies(z3.And(at < 1, at > 0), v.t >= 1), defines=v)
            else:
                self.add(z3.Implies(at > 1, v.t >= 1), defines=v)
                self.add(z3.Implies(z3.And(at < 1, at >= 0), v.t <= 1), defines=v)
            self.add(z3.Implies(at == 1, v.t == 1), defines=v)
        return v

    def signum(self, a):
        if a.exact_const is not None:
            return self.const(1 if a.exact_const >= 0 else -1)
        if a.opaque:
            v = self.fresh("sgn")
            self.add(z3.Or(v.t == 1, v.t == -1), defines=v)
            return v
        pos = self.check([a.t >= 0], fast=True) != z3.unsat
        neg = self.check([a.t < 0], fast=True) != z3.unsat
        if pos and not neg:
            return self.const(1)
        if neg and not pos:
            return self.const(-1)
        return RV(z3.If(a.t >= 0, z3.RealVal(1), z3.RealVal(-1)), lo=Fraction(-1), hi=Fraction(1))

    def round(self, a):
        raise NotImplementedError("round()")

    def is_nan(self, a):
        return False

    def is_finite(self, a):
        return True

    # -- comparisons
    def cmp(self, op, a, b):
        if a.exact_const is not None and b.exact_const is not None:
            x, y = a.exact_const, b.exact_const
            return {"==": x == y, "!=": x != y, "<": x < y, ">": x > y, "<=": x <= y, ">=": x >= y}[op]
        return {"==": a.t == b.t, "!=": a.t != b.t, "<": a.t < b.t, ">": a.t > b.t, "<=": a.t <= b.t, ">=": a.t >= b.t}[op]

    def b_not(self, a):
        return z3.Not(a)

    def b_and(self, a, b):
        return z3.And(a, b)

    def b_or(self, a, b):
        return z3.Or(a, b)

    def concrete_bool(self, c):
        if isinstance(c, bool):
            return c
        if z3.is_true(c):
            return True
        if z3.is_false(c):
            return False
        return None

    def check(self, extra=(), fast=False, timeout_ms=60000):
        import time
        t0 = time.time()
        self.queries += 1
        self.solver.set("timeout", self.feas_timeout_ms if fast else timeout_ms)
        r = self.solver.check(*extra)
        self.solver_s += time.time() - t0
        return r

    def feasible(self, cond, value):
        if z3.is_const(cond) and cond.get_id() in self.free_bools:
            self.free_bools.discard(cond.get_id())
            return True
        c = cond if value else z3.Not(cond)
        r = self.check([c], fast=True)
        return r != z3.unsat  # unknown counts as feasible (over-approximation)

    def assume(self, cond, value):
        c = cond if value else z3.Not(cond)
        self.path.append(c)
        self.solver.add(c)


def _widen(lo, hi):
    """Constant bounds of a rounded value: widen by one relative unit."""
    w = Fraction(1, 2 ** 52)
    if lo is not None:
        lo = lo * (1 - w) if lo >= 0 else lo * (1 + w)
    if hi is not None:
        hi = hi * (1 + w) if hi >= 0 else hi * (1 - w)
    return lo, hi


def _scale_bounds(q, c):
    if q.lo is None or q.hi is None:
        if c >= 0:
            return (None if q.lo is None else q.lo * c), (None if q.hi is None else q.hi * c)
        return (None if q.hi is None else q.hi * c), (None if q.lo is None else q.lo * c)
    x, y = q.lo * c, q.hi * c
    return min(x, y), max(x, y)


def _is_pow2(q):
    q = abs(Fraction(q))
    if q == 0:
        return False
    n, d = q.numerator, q.denominator
    return (n & (n - 1)) == 0 and (d & (d - 1)) == 0
