"""Symbolic interpreter for the Rust subset parsed by rsym.rustparse.

The interpreter is generic over an arithmetic *domain* (rsym.domains): Exact (sympy expressions
over Q, used to extract tableaux / identities) and Round (z3 reals with one relative-error
variable per float operation, used for the time-control obligations).

Branching on symbolic conditions is done by re-execution: a run follows a preset list of
decisions and extends it; `explore` enumerates all feasible decision lists depth-first.
"""
from fractions import Fraction

from . import rustparse as rp


class Unsupported(Exception):
    """The source left the subset the encoder understands -> inconclusive, never a verdict."""


class PathEnd(Exception):
    """Raised by hooks to end a path deliberately (e.g. after one loop iteration)."""

    def __init__(self, kind, payload=None):
        super().__init__(kind)
        self.kind = kind
        self.payload = payload


class _Break(Exception):
    def __init__(self, label, value=None):
        self.label = label
        self.value = value


class _Continue(Exception):
    def __init__(self, label):
        self.label = label


class _Return(Exception):
    def __init__(self, value):
        self.value = value


class RustPanic(Exception):
    pass


class SInt:
    """Symbolic integer counter: `base + off` for an unknown non-negative base (loop-carried
    usize such as steps.total, evals.ode, nmax). Addition of concrete integers is tracked
    exactly; every other observation is over-approximated (comparisons are nondeterministic)."""

    __slots__ = ("base", "off")

    def __init__(self, base, off=0):
        self.base, self.off = base, off

    def __repr__(self):
        return f"{self.base}{self.off:+d}"


class RVec:
    """Vec / array / slice storage (reference semantics like a Rust &mut [T])."""

    __slots__ = ("a",)

    def __init__(self, a):
        self.a = list(a)

    def __len__(self):
        return len(self.a)

    def get(self, i):
        if not isinstance(i, int):
            raise Unsupported(f"symbolic index {i!r}")
        if i < 0 or i >= len(self.a):
            raise RustPanic(f"index out of bounds: the len is {len(self.a)} but the index is {i}")
        return self.a[i]

    def set(self, i, v):
        if not isinstance(i, int):
            raise Unsupported(f"symbolic index {i!r}")
        if i < 0 or i >= len(self.a):
            raise RustPanic(f"index out of bounds: the len is {len(self.a)} but the index is {i}")
        self.a[i] = v

    def items(self):
        return list(self.a)

    def __repr__(self):
        return f"RVec({self.a!r})"


class RSlice(RVec):
    """View into an RVec: base[lo:hi]."""

    __slots__ = ("base", "lo", "hi")

    def __init__(self, base, lo, hi):
        self.base, self.lo, self.hi = base, lo, hi

    def __len__(self):
        return self.hi - self.lo

    def get(self, i):
        if i < 0 or i >= len(self):
            raise RustPanic("slice index out of bounds")
        return self.base.get(self.lo + i)

    def set(self, i, v):
        if i < 0 or i >= len(self):
            raise RustPanic("slice index out of bounds")
        self.base.set(self.lo + i, v)

    def items(self):
        return [self.base.get(self.lo + i) for i in range(len(self))]

    @property
    def a(self):
        return self.items()

    def __repr__(self):
        return f"RSlice({self.items()!r})"


class ElemRef:
    """`&mut v[i]` produced by iter_mut()."""

    def __init__(self, vec, i):
        self.vec, self.i = vec, i

    def get(self):
        return self.vec.get(self.i)

    def set(self, v):
        self.vec.set(self.i, v)


class PayloadCell(RVec):
    """Mutable enum payload (so that `match self { Scalar(v) => v }` yields a place)."""

    def __iter__(self):
        return iter(self.a)

    def __getitem__(self, i):
        return self.a[i]

    def __bool__(self):
        return bool(self.a)

    def __eq__(self, o):
        return isinstance(o, PayloadCell) and self.a == o.a

    def __hash__(self):
        return id(self)


class REnum:
    def __init__(self, name, payload=(), mutable=False):
        self.name = name
        self.payload = PayloadCell(payload) if mutable else tuple(payload)

    def __repr__(self):
        return f"{self.name}{list(self.payload) if self.payload else ''}"

    def __eq__(self, o):
        return isinstance(o, REnum) and o.name == self.name and o.payload == self.payload

    def __hash__(self):
        return hash(self.name)


class RStruct:
    def __init__(self, name, fields):
        self.name = name
        self.f = dict(fields)

    def __repr__(self):
        return f"{self.name}{self.f}"


class Closure:
    def __init__(self, params, body, env):
        self.params, self.body, self.env = params, body, env


class FnVal:
    def __init__(self, name, node=None, py=None):
        self.name, self.node, self.py = name, node, py


class Env:
    def __init__(self, parent=None):
        self.vars = {}
        self.parent = parent

    def lookup(self, name):
        e = self
        while e is not None:
            if name in e.vars:
                return e
            e = e.parent
        return None

    def get(self, name):
        e = self.lookup(name)
        if e is None:
            raise KeyError(name)
        return e.vars[name]

    def set(self, name, v):
        e = self.lookup(name)
        if e is None:
            raise Unsupported(f"assignment to undeclared variable {name}")
        e.vars[name] = v

    def declare(self, name, v):
        self.vars[name] = v


NONE = REnum("None")


def some(v):
    return REnum("Some", [v])


class Interp:
    def __init__(self, domain, items, hooks=None, consts_as="exact"):
        self.d = domain
        self.fns = {}
        self.consts = {}
        self.const_nodes = {}
        for it in items:
            if it[0] == "fn":
                if len(it) > 5 and it[5]:
                    self.fns.setdefault(f"{it[5]}::{it[1]}", it)
                self.fns.setdefault(it[1], it)
            elif it[0] == "const":
                self.const_nodes[it[1]] = it[2]
        self.hooks = hooks or {}
        self.preset = []
        self.trail = []
        self.events = []
        self.uninit = object()
        self.steps = 0
        self.max_steps = 2_000_000
        self.sint_observations = []
        self.sint_counter = 0

    # ------------------------------------------------------------ decisions
    def decide(self, cond, why=""):
        """cond: a domain-level symbolic boolean. Returns a Python bool, forking if needed."""
        c = self.d.concrete_bool(cond)
        if c is not None:
            return c
        k = len(self.trail)
        if k < len(self.preset):
            choice, flippable = self.preset[k]
            self.trail.append([cond, choice, flippable, why])
            self.d.assume(cond, choice)
            return choice
        t_ok = self.d.feasible(cond, True)
        f_ok = self.d.feasible(cond, False)
        if t_ok and f_ok:
            choice, flippable = True, True
        elif t_ok:
            choice, flippable = True, False
        elif f_ok:
            choice, flippable = False, False
        else:
            raise PathEnd("infeasible")
        self.trail.append([cond, choice, flippable, why])
        self.d.assume(cond, choice)
        return choice

    def choose(self, alts, why="choice"):
        """Nondeterministic choice among concrete alternatives (forks, no solver involved)."""
        i = 0
        while i < len(alts) - 1:
            if self.decide(self.d.fresh_bool(f"{why}_{i}"), why):
                break
            i += 1
        return alts[i]

    # ------------------------------------------------------------ constants
    def const(self, name):
        if name not in self.consts:
            if name not in self.const_nodes:
                raise KeyError(name)
            self.consts[name] = self.const_eval(self.const_nodes[name])
        return self.consts[name]

    def const_eval(self, node):
        """Evaluate a const initialiser the way rustc does: in IEEE binary64, then take the exact
        rational value of the resulting double."""
        v = self._cev(node)
        if isinstance(v, float):
            return self.d.const(Fraction(v))
        if isinstance(v, list):
            return RVec([self.d.const(Fraction(x)) if isinstance(x, float) else x for x in v])
        return v

    def _cev(self, n):
        k = n[0]
        if k == "num":
            return parse_num(n[1])
        if k == "paren":
            return self._cev(n[1])
        if k == "un":
            v = self._cev(n[2])
            return -v if n[1] == "-" else (not v)
        if k == "bin":
            a, b = self._cev(n[2]), self._cev(n[3])
            op = n[1]
            if op == "+":
                return a + b
            if op == "-":
                return a - b
            if op == "*":
                return a * b
            if op == "/":
                return a / b if isinstance(a, float) or isinstance(b, float) else a // b
            raise Unsupported("const op " + op)
        if k == "cast":
            v = self._cev(n[1])
            return float(v) if n[2] in ("Float", "f64", "f32") else int(v)
        if k == "path":
            p = n[1]
            if len(p) == 1 and p[0] in self.const_nodes:
                return self._cev(self.const_nodes[p[0]])
            if p[-1] == "EPSILON":
                return 2.0 ** -52
            if p[-1] == "MIN_POSITIVE":
                return 2.0 ** -1022
            if p[-1] == "INFINITY":
                return float("inf")
        if k == "array":
            return [self._cev(e) for e in n[1]]
        raise Unsupported(f"const expression {k}")

    # ------------------------------------------------------------ function calls
    def call_fn(self, name, args):
        if name in self.hooks.get("fns", {}):
            return self.hooks["fns"][name](self, *args)
        if name not in self.fns:
            raise Unsupported(f"call to unknown function {name}")
        params, body = self.fns[name][2], self.fns[name][3]
        env = Env()
        if len(params) != len(args):
            # methods: `self` is a plain first parameter
            raise Unsupported(f"arity mismatch calling {name}: {len(params)} params, {len(args)} args")
        for p, a in zip(params, args):
            self.bind(p, a, env)
        try:
            return self.block(body, env)
        except _Return as r:
            return r.value

    def call_value(self, f, args):
        if isinstance(f, Closure):
            env = Env(f.env)
            for p, a in zip(f.params, args):
                self.bind(p, a, env)
            return self.expr(f.body, env)
        if isinstance(f, FnVal):
            if f.py is not None:
                return f.py(self, *args)
            return self.call_fn(f.name, args)
        if isinstance(f, REnum) and f.name in ("min", "max") and len(args) == 2:
            a, b = [x.get() if isinstance(x, ElemRef) else x for x in args]
            return self.d.fmin(a, b) if f.name == "min" else self.d.fmax(a, b)
        raise Unsupported(f"call of non-function {f!r}")

    # ------------------------------------------------------------ patterns
    def bind(self, pat, v, env):
        k = pat[0]
        if k == "pbind":
            env.declare(pat[1], v)
        elif k == "pwild":
            pass
        elif k == "ptuple":
            vals = v if isinstance(v, tuple) else tuple(v)
            for p, x in zip(pat[1], vals):
                self.bind(p, x, env)
        else:
            if not self.match(pat, v, env):
                raise RustPanic("irrefutable pattern did not match")

    def match(self, pat, v, env):
        """Returns True/False (concrete match). Binds on success."""
        k = pat[0]
        if k == "pwild":
            return True
        if k == "pbind":
            env.declare(pat[1], v)
            return True
        if k == "plit":
            lit = self.expr(pat[1], env)
            return self.truth(self.binop("==", v, lit))
        if k == "ptuple":
            return all(self.match(p, x, env) for p, x in zip(pat[1], v))
        if k in ("pctor", "ppath"):
            name = pat[1][-1]
            if isinstance(v, SymEnum):
                v = v.resolve(self)
            if not isinstance(v, REnum):
                raise Unsupported(f"match of {v!r} against {name}")
            if v.name != name:
                return False
            if k == "pctor":
                for j, (p, x) in enumerate(zip(pat[2], v.payload)):
                    if p[0] == "pbind" and isinstance(v.payload, PayloadCell):
                        env.declare(p[1], ElemRef(v.payload, j) if not isinstance(x, (RVec, RStruct, REnum)) else x)
                    elif not self.match(p, x, env):
                        return False
            return True
        if k == "pstruct":
            name = pat[1][-1]
            if isinstance(v, REnum):
                if v.name != name:
                    return False
                fields = v.payload[0] if v.payload else {}
            elif isinstance(v, RStruct):
                fields = v.f
            else:
                raise Unsupported("struct pattern on " + repr(v))
            for fname, p in pat[2]:
                if not self.match(p, fields[fname], env):
                    return False
            return True
        raise Unsupported("pattern " + k)

    # ------------------------------------------------------------ statements
    def block(self, node, env, new_scope=True):
        env2 = Env(env) if new_scope else env
        val = None
        for s in node[1]:
            val = self.stmt(s, env2)
        return val

    def stmt(self, s, env):
        self.steps += 1
        if self.steps > self.max_steps:
            raise Unsupported("interpreter step limit")
        k = s[0]
        if k == "let":
            v = self.uninit if s[2] is None else self.expr(s[2], env)
            if "on_let" in self.hooks:
                v = self.hooks["on_let"](self, s, v, env)
            self.bind(s[1], v, env)
            return None
        if k == "expr":
            v = self.expr(s[1], env)
            return None if s[3] else v
        if k == "localfn":
            f = s[1]
            self.fns[f[1]] = f
            return None
        if k == "localconst":
            c = s[1]
            self.const_nodes[c[1]] = c[2]
            return None
        raise Unsupported("statement " + k)

    # ------------------------------------------------------------ expressions
    def truth(self, v, why=""):
        if isinstance(v, bool):
            return v
        return self.decide(v, why)

    def expr(self, n, env):
        k = n[0]
        m = getattr(self, "e_" + k, None)
        if m is None:
            raise Unsupported("expression kind " + k)
        return m(n, env)

    def e_num(self, n, env):
        v = parse_num(n[1])
        if isinstance(v, float):
            return self.d.const(Fraction(v))
        return v

    def e_str(self, n, env):
        return n[1]

    def e_paren(self, n, env):
        return self.expr(n[1], env)

    def e_tuple(self, n, env):
        return tuple(self.expr(e, env) for e in n[1])

    def e_array(self, n, env):
        return RVec([self.expr(e, env) for e in n[1]])

    def e_arrayrep(self, n, env):
        cnt = self.expr(n[2], env)
        if not isinstance(cnt, int):
            raise Unsupported("symbolic array length")
        out = []
        for _ in range(cnt):
            v = self.expr(n[1], env)
            out.append(v)
        return RVec(out)

    def e_ref(self, n, env):
        inner = n[1]
        if inner[0] == "index":
            base = self.expr(inner[1], env)
            idx = self.expr(inner[2], env)
            if isinstance(base, ElemRef):
                base = base.get()
            if isinstance(base, RVec) and isinstance(idx, int):
                el = base.get(idx)  # bounds check
                if isinstance(el, (RVec, RStruct, REnum)):
                    return el
                return ElemRef(base, idx)
            return self.index(base, idx)
        return self.expr(inner, env)

    def e_try(self, n, env):
        """`expr?`: unwrap Ok/Some, return early with Err/None."""
        v = self.expr(n[1], env)
        if isinstance(v, SymEnum):
            v = v.resolve(self)
        if isinstance(v, REnum):
            if v.name in ("Ok", "Some"):
                return v.payload[0] if len(v.payload) else None
            if v.name in ("Err", "None"):
                raise _Return(v)
        return v

    def e_path(self, n, env):
        p = n[1]
        if len(p) == 1:
            name = p[0]
            e = env.lookup(name)
            if e is not None:
                v = e.vars[name]
                if v is self.uninit:
                    raise Unsupported(f"read of uninitialised {name}")
                return v
            if name in self.const_nodes:
                return self.const(name)
            if name in self.fns or name in self.hooks.get("fns", {}):
                return FnVal(name)
            if name == "None":
                return NONE
            if name == "true":
                return True
            if name == "false":
                return False
            if name in self.hooks.get("globals", {}):
                return self.hooks["globals"][name]
            raise Unsupported(f"unknown name {name} (line {n[2]})")
        head, last = p[0], p[-1]
        if last == "EPSILON":
            return self.d.const(Fraction(2) ** -52)
        if last == "MIN_POSITIVE":
            return self.d.const(Fraction(2) ** -1022)
        if last == "INFINITY":
            return self.d.inf()
        if last == "MAX" and head == "usize":
            return 2 ** 64 - 1
        if head in ("Self",) and (last in self.fns):
            return FnVal(last)
        if last in self.const_nodes and head in ("Self", "self", "super", "crate"):
            return self.const(last)
        if last == "None":
            return NONE
        # enum unit variant / associated fn
        if last in self.fns and head[0].isupper():
            return FnVal(last)
        return REnum(last)

    def e_struct(self, n, env):
        name = n[1][-1]
        fields = {f: self.expr(e, env) for f, e in n[2]}
        if len(n[1]) > 1 and n[1][-2] not in ("crate", "self", "super") and n[1][-2][0].isupper():
            # enum struct variant, e.g. ConfigError::OutOfRange {..}
            return REnum(name, [fields])
        return RStruct(name, fields)

    def e_closure(self, n, env):
        return Closure(n[1], n[2], env)

    def e_cast(self, n, env):
        v = self.expr(n[1], env)
        ty = n[2]
        if isinstance(v, SInt):
            if ty in ("Float", "f64", "f32"):
                return self.d.opaque_float("cnt")
            return v
        if ty in ("Float", "f64", "f32"):
            if isinstance(v, bool):
                v = int(v)
            if isinstance(v, int):
                return self.d.const(Fraction(v))
            return v
        if ty in ("usize", "isize", "u8", "i32", "u32", "i64", "u64", "i8", "u16", "i16"):
            if isinstance(v, bool):
                return int(v)
            if isinstance(v, int):
                return v
            c = self.d.concrete(v)
            if c is None:
                raise Unsupported("cast of symbolic float to integer")
            return int(c)  # truncation toward zero
        return v

    def e_un(self, n, env):
        op = n[1]
        if op == "*":
            v = self.expr(n[2], env)
            return v.get() if isinstance(v, ElemRef) else v
        v = self.expr(n[2], env)
        if op == "-":
            if isinstance(v, int):
                return -v
            return self.d.neg(v)
        if op == "!":
            if isinstance(v, bool):
                return not v
            return self.d.b_not(v)
        raise Unsupported("unary " + op)

    def e_bin(self, n, env):
        op = n[1]
        if op == "&&":
            a = self.expr(n[2], env)
            if isinstance(a, bool):
                return self.expr(n[3], env) if a else False
            if not self.truth(a, f"line {n[4]} &&"):
                return False
            return self.expr(n[3], env)
        if op == "||":
            a = self.expr(n[2], env)
            if isinstance(a, bool):
                return True if a else self.expr(n[3], env)
            if self.truth(a, f"line {n[4]} ||"):
                return True
            return self.expr(n[3], env)
        a = self.expr(n[2], env)
        b = self.expr(n[3], env)
        return self.binop(op, a, b)

    def binop(self, op, a, b):
        if isinstance(a, ElemRef):
            a = a.get()
        if isinstance(b, ElemRef):
            b = b.get()
        if isinstance(a, SInt) or isinstance(b, SInt):
            return self.sint_op(op, a, b)
        ints = isinstance(a, int) and isinstance(b, int) and not isinstance(a, bool) and not isinstance(b, bool)
        if ints:
            if op == "+":
                return a + b
            if op == "-":
                if a - b < 0 and self.hooks.get("unsigned_panics", True):
                    raise RustPanic("attempt to subtract with overflow")
                return a - b
            if op == "*":
                return a * b
            if op == "/":
                if b == 0:
                    raise RustPanic("attempt to divide by zero")
                return a // b
            if op == "%":
                if b == 0:
                    raise RustPanic("attempt to calculate the remainder with a divisor of zero")
                return a % b
            return {"==": a == b, "!=": a != b, "<": a < b, ">": a > b, "<=": a <= b, ">=": a >= b}[op]
        if isinstance(a, bool) and isinstance(b, bool):
            return {"==": a == b, "!=": a != b, "&": a and b, "|": a or b, "^": a != b}[op]
        if isinstance(a, (REnum, str)) or isinstance(b, (REnum, str)):
            if op == "==":
                return a == b
            if op == "!=":
                return a != b
        if isinstance(a, int) and not isinstance(a, bool):
            a = self.d.const(Fraction(a))
        if isinstance(b, int) and not isinstance(b, bool):
            b = self.d.const(Fraction(b))
        if op in ("+", "-", "*", "/"):
            return self.d.arith(op, a, b)
        if op in ("==", "!=", "<", ">", "<=", ">="):
            return self.d.cmp(op, a, b)
        if op in ("&", "|") and not isinstance(a, (int, float)):
            return self.d.b_and(a, b) if op == "&" else self.d.b_or(a, b)
        raise Unsupported(f"binary {op} on {type(a).__name__},{type(b).__name__}")

    def sint_op(self, op, a, b):
        if op in ("+", "-") and isinstance(a, SInt) and isinstance(b, int) and not isinstance(b, bool):
            return SInt(a.base, a.off + (b if op == "+" else -b))
        if op == "+" and isinstance(b, SInt) and isinstance(a, int) and not isinstance(a, bool):
            return SInt(b.base, b.off + a)
        if op in ("==", "!=", "<", ">", "<=", ">="):
            if isinstance(a, SInt) and isinstance(b, SInt) and a.base == b.base:
                x, y = a.off, b.off
                return {"==": x == y, "!=": x != y, "<": x < y, ">": x > y, "<=": x <= y, ">=": x >= y}[op]
            self.sint_observations.append((op, repr(a), repr(b)))
            return self.d.fresh_bool("icmp")
        if op in ("%", "/", "*", "+", "-"):
            self.sint_counter += 1
            return SInt(f"opaque{self.sint_counter}")
        raise Unsupported(f"operation {op} on a symbolic counter")

    def e_range(self, n, env):
        lo = None if n[1] is None else self.expr(n[1], env)
        hi = None if n[2] is None else self.expr(n[2], env)
        return ("range", lo, hi, n[3])

    def range_list(self, r):
        _, lo, hi, incl = r
        if not isinstance(lo, int) or not isinstance(hi, int):
            raise Unsupported("symbolic range bounds")
        return list(range(lo, hi + 1 if incl else hi))

    def e_index(self, n, env):
        base = self.expr(n[1], env)
        idx = self.expr(n[2], env)
        return self.index(base, idx)

    def index(self, base, idx):
        if isinstance(base, ElemRef):
            base = base.get()
        if "index" in self.hooks:
            r = self.hooks["index"](self, base, idx)
            if r is not NotImplemented:
                return r
        if isinstance(idx, tuple) and idx and idx[0] == "range":
            _, lo, hi, incl = idx
            lo = 0 if lo is None else lo
            hi = len(base) if hi is None else (hi + 1 if incl else hi)
            if not (0 <= lo <= hi <= len(base)):
                raise RustPanic("slice range out of bounds")
            return RSlice(base, lo, hi)
        if isinstance(base, RVec):
            return base.get(idx)
        if isinstance(base, tuple):
            return base[idx]
        raise Unsupported(f"index into {type(base).__name__}")

    def e_field(self, n, env):
        base = self.expr(n[1], env)
        return self.field(base, n[2])

    def field(self, base, name):
        if isinstance(base, ElemRef):
            base = base.get()
        if isinstance(base, RStruct):
            if name not in base.f:
                raise Unsupported(f"no field {name} in {base.name}")
            return base.f[name]
        raise Unsupported(f"field {name} of {type(base).__name__}")

    def e_tfield(self, n, env):
        base = self.expr(n[1], env)
        if isinstance(base, ElemRef):
            base = base.get()
        return base[n[2]]

    # ---- assignment
    def e_assign(self, n, env):
        _, op, lhs, rhs, line = n
        v = self.expr(rhs, env)
        if op != "=":
            cur = self.expr(lhs, env)
            v = self.binop(op[0], cur, v)
        self.assign(lhs, v, env)
        return None

    def assign(self, lhs, v, env):
        k = lhs[0]
        if k == "path" and len(lhs[1]) == 1:
            name = lhs[1][0]
            if "on_assign" in self.hooks:
                v = self.hooks["on_assign"](self, name, v, env)
            env.set(name, v)
            return
        if k == "index":
            base = self.expr(lhs[1], env)
            idx = self.expr(lhs[2], env)
            if isinstance(base, ElemRef):
                base = base.get()
            if "index_set" in self.hooks:
                r = self.hooks["index_set"](self, base, idx, v)
                if r is not NotImplemented:
                    return
            if isinstance(base, RVec):
                base.set(idx, v)
                return
            raise Unsupported("index assignment into " + type(base).__name__)
        if k == "field":
            base = self.expr(lhs[1], env)
            if isinstance(base, RStruct):
                base.f[lhs[2]] = v
                return
            raise Unsupported("field assignment")
        if k == "un" and lhs[1] == "*":
            r = self.expr(lhs[2], env)
            if isinstance(r, ElemRef):
                r.set(v)
                return
            # `*x = v` where x is a by-reference scalar parameter: rebind
            if lhs[2][0] == "path" and len(lhs[2][1]) == 1:
                env.set(lhs[2][1][0], v)
                return
        if k == "paren":
            return self.assign(lhs[1], v, env)
        if k == "tuple":
            for l, x in zip(lhs[1], v):
                self.assign(l, x, env)
            return
        raise Unsupported("assignment target " + k)

    # ---- control flow
    def e_block(self, n, env):
        return self.block(n, env)

    def e_if(self, n, env):
        _, cond, then, els, line = n
        c = self.expr(cond, env)
        if self.truth(c, f"line {line} if"):
            return self.block(then, env)
        if els is None:
            return None
        return self.expr(els, env)

    def e_iflet(self, n, env):
        _, pat, scrut, then, els, line = n
        v = self.expr(scrut, env)
        env2 = Env(env)
        if self.match(pat, v, env2):
            return self.block(then, env2)
        if els is None:
            return None
        return self.expr(els, env)

    def e_match(self, n, env):
        _, scrut, arms, line = n
        v = self.expr(scrut, env)
        if isinstance(v, SymEnum):
            v = v.resolve(self)
        for pats, guard, body in arms:
            for p in pats:
                env2 = Env(env)
                if self.match(p, v, env2):
                    if guard is not None and not self.truth(self.expr(guard, env2), f"line {line} guard"):
                        continue
                    return self.expr(body, env2)
        raise RustPanic(f"non-exhaustive match on {v!r} (line {line})")

    def e_loop(self, n, env):
        _, label, body, line = n
        if "on_loop" in self.hooks:
            r = self.hooks["on_loop"](self, n, env)
            if r is not NotImplemented:
                return r
        it = 0
        while True:
            it += 1
            if it > self.hooks.get("max_loop_iters", 64):
                raise Unsupported(f"loop at line {line} exceeded the iteration bound")
            try:
                self.block(body, env)
            except _Break as b:
                if b.label is None or b.label == label:
                    return b.value
                raise
            except _Continue as c:
                if c.label is None or c.label == label:
                    continue
                raise

    def e_while(self, n, env):
        _, label, cond, body, line = n
        it = 0
        while True:
            it += 1
            if it > self.hooks.get("max_loop_iters", 64):
                raise Unsupported(f"while loop at line {line} exceeded the iteration bound")
            if not self.truth(self.expr(cond, env), f"line {line} while"):
                return None
            try:
                self.block(body, env)
            except _Break as b:
                if b.label is None or b.label == label:
                    return None
                raise
            except _Continue as c:
                if c.label is None or c.label == label:
                    continue
                raise

    def e_for(self, n, env):
        _, label, pat, it, body, line = n
        seq = self.iterate(self.expr(it, env))
        for item in seq:
            env2 = Env(env)
            self.bind(pat, item, env2)
            try:
                self.block(body, env2)
            except _Break as b:
                if b.label is None or b.label == label:
                    return None
                raise
            except _Continue as c:
                if c.label is None or c.label == label:
                    continue
                raise
        return None

    def iterate(self, v):
        if isinstance(v, tuple) and v and v[0] == "range":
            return self.range_list(v)
        if isinstance(v, RVec):
            return v.items()
        if isinstance(v, list):
            return v
        raise Unsupported("iteration over " + type(v).__name__)

    def e_return(self, n, env):
        raise _Return(None if n[1] is None else self.expr(n[1], env))

    def e_break(self, n, env):
        raise _Break(n[1], None if n[2] is None else self.expr(n[2], env))

    def e_continue(self, n, env):
        raise _Continue(n[1])

    def e_macro(self, n, env):
        _, name, args, line = n
        if name in ("debug_assert", "debug_assert_eq", "debug_assert_ne", "println", "eprintln"):
            return None
        if name in ("assert", "assert_eq", "assert_ne"):
            if args is None:
                raise Unsupported("unparsed assert!")
            if name == "assert":
                c = self.expr(args[0], env)
            else:
                a, b = self.expr(args[0], env), self.expr(args[1], env)
                c = self.binop("==" if name == "assert_eq" else "!=", a, b)
            if not self.truth(c, f"line {line} assert"):
                raise RustPanic(f"assertion failed at line {line}")
            return None
        if name in ("panic", "unreachable", "todo"):
            raise RustPanic(f"{name}! at line {line}")
        if name == "matches":
            v = self.expr(args[0], env)
            for p in args[1][1]:
                if self.match(p, v, Env(env)):
                    return True
            return False
        raise Unsupported("macro " + name)

    # ---- calls
    def e_call(self, n, env):
        _, f, args, line = n
        if f[0] == "path":
            p = f[1]
            name = p[-1]
            if name == "Some" and len(p) == 1:
                return some(self.expr(args[0], env))
            if name in ("Ok", "Err") and len(p) == 1:
                return REnum(name, [self.expr(a, env) for a in args])
            if len(p) == 1 and env.lookup(name) is not None:
                return self.call_value(env.get(name), [self.expr(a, env) for a in args])
            if len(p) >= 2 and p[-2] in ("Vec", "String") and name in ("new", "with_capacity"):
                return RVec([])
            if len(p) >= 2 and name == "new" and (p[-2] in self.hooks.get("ctors", {})):
                return self.hooks["ctors"][p[-2]](self, *[self.expr(a, env) for a in args])
            if len(p) >= 2 and p[-2] in ("Float", "f64") and name in ("max", "min"):
                a, b = [self.expr(x, env) for x in args]
                return self.d.fmax(a, b) if name == "max" else self.d.fmin(a, b)
            key = "::".join(p[-2:]) if len(p) >= 2 else name
            if key in self.hooks.get("fns", {}):
                return self.hooks["fns"][key](self, *[self.expr(a, env) for a in args])
            if key in self.fns:
                return self.call_fn(key, [self.expr(a, env) for a in args])
            if name in self.fns or name in self.hooks.get("fns", {}):
                return self.call_fn(name, [self.expr(a, env) for a in args])
            if name[0].isupper():
                # tuple-struct / enum variant constructor
                return REnum(name, [self.expr(a, env) for a in args])
            raise Unsupported(f"call to {'::'.join(p)} (line {line})")
        fv = self.expr(f, env)
        if not isinstance(fv, (Closure, FnVal)) and not (isinstance(fv, REnum) and fv.name in ("min", "max")):
            raise Unsupported(f"call of a non-function value at line {line}: {str(f)[:80]}")
        return self.call_value(fv, [self.expr(a, env) for a in args])

    def e_mcall(self, n, env):
        _, recv_n, name, arg_ns, line = n
        recv = self.expr(recv_n, env)
        if isinstance(recv, ElemRef) and name not in ():
            recv = recv.get()
        hk = self.hooks.get("methods", {})
        if name in hk:
            r = hk[name](self, recv, arg_ns, env, n)
            if r is not NotImplemented:
                return r
        args = [self.expr(a, env) for a in arg_ns]
        return self.method(recv, name, args, n, env)

    def method(self, recv, name, args, n, env):
        d = self.d
        # ---- Option
        if isinstance(recv, SymEnum) and name in ("is_some", "is_none", "unwrap", "unwrap_or", "unwrap_or_else", "map",
                                                   "map_or", "as_mut", "as_ref", "take"):
            recv = recv.resolve(self)
        if isinstance(recv, REnum) and recv.name in ("Some", "None"):
            is_some = recv.name == "Some"
            if name in ("as_mut", "as_ref", "clone", "as_deref", "as_deref_mut", "copied", "cloned"):
                return recv
            if name == "is_some":
                return is_some
            if name == "is_none":
                return not is_some
            if name in ("unwrap", "expect"):
                if not is_some:
                    raise RustPanic("called `Option::unwrap()` on a `None` value")
                return recv.payload[0]
            if name == "unwrap_or":
                return recv.payload[0] if is_some else args[0]
            if name == "unwrap_or_else":
                return recv.payload[0] if is_some else self.call_value(args[0], [])
            if name == "map":
                return some(self.call_value(args[0], [recv.payload[0]])) if is_some else NONE
            if name == "map_or":
                return self.call_value(args[1], [recv.payload[0]]) if is_some else args[0]
            if name == "ok_or":
                return REnum("Ok", list(recv.payload)) if is_some else REnum("Err", [args[0]])
        if isinstance(recv, REnum) and recv.name in ("Ok", "Err"):
            if name == "is_err":
                return recv.name == "Err"
            if name == "is_ok":
                return recv.name == "Ok"
            if name in ("unwrap", "expect"):
                if recv.name == "Err":
                    raise RustPanic("unwrap on Err")
                return recv.payload[0] if recv.payload else None
        # ---- integers
        if isinstance(recv, int) and not isinstance(recv, bool):
            if name == "min":
                return min(recv, args[0])
            if name == "max":
                return max(recv, args[0])
            if name == "saturating_sub":
                return max(recv - args[0], 0)
            if name == "pow":
                return recv ** args[0]
            if name == "abs":
                return abs(recv)
            if name == "clone":
                return recv
        if isinstance(recv, bool) and name == "clone":
            return recv
        # ---- vectors
        if isinstance(recv, RVec):
            if name == "len":
                return len(recv)
            if name == "is_empty":
                return len(recv) == 0
            if name in ("to_vec", "clone", "to_owned"):
                return RVec([clone_val(x) for x in recv.items()])
            if name in ("iter", "into_iter", "as_slice", "as_mut_slice", "by_ref"):
                return recv.items()
            if name == "iter_mut":
                return [ElemRef(recv, i) for i in range(len(recv))]
            if name == "copy_from_slice" or name == "clone_from_slice":
                src = args[0].items()
                if len(src) != len(recv):
                    raise RustPanic("source slice length does not match destination slice length")
                for i, x in enumerate(src):
                    recv.set(i, x)
                return None
            if name == "fill":
                for i in range(len(recv)):
                    recv.set(i, args[0])
                return None
            if name == "push":
                if isinstance(recv, RSlice):
                    raise Unsupported("push on slice")
                recv.a.append(args[0])
                return None
            if name == "swap":
                a, b = recv.get(args[0]), recv.get(args[1])
                recv.set(args[0], b)
                recv.set(args[1], a)
                return None
            if name in ("first", "last"):
                if len(recv) == 0:
                    return NONE
                return some(recv.get(0 if name == "first" else len(recv) - 1))
            if name == "reserve":
                return None
        # ---- iterator adaptors on python lists
        if isinstance(recv, list):
            if name in ("iter", "into_iter", "copied", "cloned", "by_ref"):
                return recv
            if name == "enumerate":
                return [(i, x) for i, x in enumerate(recv)]
            if name == "zip":
                other = args[0].items() if isinstance(args[0], RVec) else list(args[0])
                return list(zip(recv, other))
            if name == "take":
                return recv[: args[0]]
            if name == "rev":
                return list(reversed(recv))
            if name == "map":
                return [self.call_value(args[0], [x]) for x in recv]
            if name == "max_by":
                if not recv:
                    return NONE
                best = recv[0]
                for x in recv[1:]:
                    o = self.call_value(args[0], [best, x])
                    if isinstance(o, REnum) and o.name in ("Less", "Equal"):
                        best = x      # Iterator::max_by returns the last maximal element
                return some(best)
            if name == "filter":
                return [x for x in recv if self.truth(self.call_value(args[0], [x]), "filter")]
            if name == "collect":
                return RVec(recv)
            if name == "fold":
                acc = args[0]
                for x in recv:
                    acc = self.call_value(args[1], [acc, x.get() if isinstance(x, ElemRef) else x])
                return acc
            if name == "sum":
                acc = d.const(Fraction(0))
                for x in recv:
                    acc = d.arith("+", acc, x)
                return acc
            if name == "all":
                for x in recv:
                    if not self.truth(self.call_value(args[0], [x])):
                        return False
                return True
            if name == "len" or name == "count":
                return len(recv)
        if isinstance(recv, tuple) and recv and recv[0] == "range":
            if name == "rev":
                return list(reversed(self.range_list(recv)))
            if name in ("into_iter", "iter"):
                return self.range_list(recv)
        # ---- structs: user methods
        if isinstance(recv, (RStruct, REnum)) and name == "clone":
            return recv
        if isinstance(recv, RStruct) and name in self.fns:
            return self.call_fn(name, [recv] + args)
        # ---- floats
        if d.is_float(recv):
            return self.float_method(recv, name, args, n)
        raise Unsupported(f"method .{name}() on {type(recv).__name__} (line {n[4]})")

    def float_method(self, v, name, args, n):
        d = self.d
        args = [d.const(Fraction(a)) if isinstance(a, int) and not isinstance(a, bool) and name != "powi" else a for a in args]
        if name == "abs":
            return d.fabs(v)
        if name == "max":
            return d.fmax(v, args[0])
        if name == "min":
            return d.fmin(v, args[0])
        if name == "sqrt":
            return d.sqrt(v)
        if name == "powi":
            return d.powi(v, args[0])
        if name == "powf":
            return d.powf(v, args[0])
        if name == "signum":
            return d.signum(v)
        if name == "clamp":
            lo, hi = args
            if hasattr(d, "clamp"):
                return d.clamp(v, lo, hi)      # bit-precise domain: core's clamp lets a NaN through, min/max drop it
            return d.fmin(d.fmax(v, lo), hi)
        if name == "is_nan":
            return d.is_nan(v)
        if name == "is_finite":
            return d.is_finite(v)
        if name == "is_infinite":
            return d.b_not(d.is_finite(v)) if not isinstance(d.is_finite(v), bool) else not d.is_finite(v)
        if name == "round":
            return d.round(v)
        if name in ("clone", "to_owned"):
            return v
        if name == "partial_cmp":
            other = args[0].get() if isinstance(args[0], ElemRef) else args[0]
            if self.truth(d.cmp("<", v, other), "partial_cmp <"):
                return some(REnum("Less"))
            if self.truth(d.cmp(">", v, other), "partial_cmp >"):
                return some(REnum("Greater"))
            return some(REnum("Equal"))
        raise Unsupported(f"float method .{name}() (line {n[4]})")


class SymEnum:
    """A value that is one of several enum alternatives, chosen by forking when inspected."""

    def __init__(self, alternatives, why="enum"):
        self.alts = alternatives
        self.why = why
        self.resolved = None

    def resolve(self, interp):
        if self.resolved is None:
            # fork over alternatives with binary decisions
            i = 0
            while i < len(self.alts) - 1:
                c = interp.d.fresh_bool(f"{self.why}_is_{self.alts[i].name}")
                if interp.decide(c, self.why):
                    break
                i += 1
            self.resolved = self.alts[i]
        return self.resolved


def clone_val(x):
    if isinstance(x, RVec):
        return RVec([clone_val(y) for y in x.items()])
    return x


def parse_num(text):
    t = text.replace("_", "")
    for suf in ("f64", "f32"):
        if t.endswith(suf):
            return float(t[: -len(suf)])
    for suf in ("usize", "isize", "u8", "u16", "u32", "u64", "i8", "i16", "i32", "i64"):
        if t.endswith(suf):
            return int(t[: -len(suf)])
    if any(c in t for c in ".eE"):
        return float(t)
    return int(t)


def explore(run, max_paths=4096):
    """Depth-first enumeration of decision lists. `run(preset)` executes one path with
    preset = [(choice, flippable), ...] and returns (trail, outcome). Yields
    (decisions, trail, outcome) for every feasible path."""
    preset = []
    n = 0
    while True:
        trail, outcome = run(preset)
        n += 1
        if n > max_paths:
            raise Unsupported("path explosion")
        yield [t[1] for t in trail], trail, outcome
        k = len(trail) - 1
        while k >= 0 and not (trail[k][1] is True and trail[k][2]):
            k -= 1
        if k < 0:
            return
        preset = [(t[1], t[2]) for t in trail[:k]] + [(False, False)]
