import re, sys
from fractions import Fraction
import sympy as sp
from trees import trees, gamma, phi
src = open('/repo/src/methods/dop853.rs').read()
consts = {}
for m in re.finditer(r'^const (\w+): Float = (.*?);', src, re.M):
    consts[m.group(1)] = sp.Rational(*Fraction(eval(m.group(2).replace('_',''))).as_integer_ratio())
a = src.index('// Stage 2'); b_ = src.index('// Error estimation')
region = re.sub(r'//.*', '', src[a:b_])
n = 1
h, x = sp.symbols('h x')
env = {'n': n, 'h': h, 'x': x}; env.update(consts)
for nm in ['y','y1','k1','k2','k3','k4','k5','k6','k7','k8','k9','k10']:
    env[nm] = [sp.Symbol(f'{nm}_0')]
calls = []; cnt=[1]
class F:
    def ode(self, t, arg, out):
        cnt[0]+=1; calls.append((t, list(arg), cnt[0]))
        for i in range(len(out)): out[i] = sp.Symbol(f'K{cnt[0]}')
env['f'] = F()
def conv(e): return e.replace('&mut ', '').replace('&', '')
def run(block):
    pos = 0
    while pos < len(block):
        m = re.compile(r'\s*for (\w+) in (\w+)\.\.(\w+) \{').match(block, pos)
        if m:
            depth = 1; q = m.end()
            while depth:
                c = block[q]; depth += (c=='{') - (c=='}'); q += 1
            for iv in range(int(eval(m.group(2), {}, env)), int(eval(m.group(3), {}, env))):
                env[m.group(1)] = iv; run(block[m.end():q-1])
            pos = q; continue
        m = re.compile(r'\s*([^;{}]+);', re.S).match(block, pos)
        if not m: return
        st = ' '.join(m.group(1).split()); pos = m.end()
        if st.startswith('f.ode('): eval(conv(st), {}, env); continue
        mm = re.match(r'^([\w\[\]\s\*\+]+?)\s*(\+=|=)\s*(.*)$', st)
        if mm:
            lhs, op, rhs = mm.groups()
            try: val = eval(conv(rhs), {}, env)
            except Exception as ex: print('SKIP', st[:60], ex); continue
            mi = re.match(r'^(\w+)\[(.*)\]$', lhs)
            if op == '+=': val = eval(conv(lhs), {}, env) + val
            if mi: env[mi.group(1)][int(eval(mi.group(2), {}, env))] = val
            else: env[lhs] = val
        else: print('SKIP', st[:60])
run(region)
y = sp.Symbol('y_0'); K = [sp.Symbol('k1_0')] + [sp.Symbol(f'K{j}') for j in range(2, 13)]
s = 12
A = [[sp.Integer(0)]*s]
for t, arg, idx in calls:
    e = sp.expand(arg[0] - y)
    A.append([e.coeff(h,1).coeff(Kk,1) for Kk in K])
    c = sp.expand(t - x).coeff(h,1)
    assert abs(float(sum(A[-1]) - c)) < 1e-14, (idx, float(sum(A[-1]) - c))
print('stages', len(A))
k4 = env['k4'][0]   # sum b_i k_i
bvec = [sp.expand(k4).coeff(Kk,1) for Kk in K]
k5 = env['k5'][0]
assert sp.expand(k5 - y - h*k4) == 0
def maxres(w, p, rhs_one=True):
    out=[]
    for t in trees(p):
        ph = phi(t, A, None, s)
        out.append(abs(float(sum(w[i]*ph[i] for i in range(s)) - (sp.Rational(1, gamma(t)) if rhs_one else 0))))
    return max(out)
for p in range(1, 10):
    print('b order', p, maxres(bvec, p))
# estimators: transcribe which buffers hold which stage at that point: k2=K11 (stage 11), k3=K12 (stage 12)
name2 = {'k1':0,'k6':5,'k7':6,'k8':7,'k9':8,'k10':9,'k2':10,'k3':11}
er = [sp.Integer(0)]*s
for nm, cn in [('k1','ER1'),('k6','ER6'),('k7','ER7'),('k8','ER8'),('k9','ER9'),('k10','ER10'),('k2','ER11'),('k3','ER12')]: er[name2[nm]] = consts[cn]
bh = list(bvec)
for nm, cn in [('k1','BH1'),('k9','BH2'),('k3','BH3')]: bh[name2[nm]] = bh[name2[nm]] - consts[cn]
for p in range(1, 8):
    print('order', p, 'ER', maxres(er, p, False), 'BH', maxres(bh, p, False))
