import z3, time, sys
F = z3.Float64(); RNE = z3.RNE()
x, h, xe = z3.FPs('x h xe', F)
def c(v): return z3.FPVal(v, F)
s = z3.Solver()
for v in (x, h, xe): s.add(z3.Not(z3.fpIsNaN(v)), z3.Not(z3.fpIsInf(v)))
s.add(z3.fpLEQ(z3.fpAbs(x), c(1e6)), z3.fpLEQ(z3.fpAbs(xe), c(1e6)), z3.fpLT(x, xe), z3.fpGT(h, c(0.0)))
scale = z3.If(z3.fpGT(z3.fpAbs(x), z3.fpAbs(xe)), z3.fpAbs(x), z3.fpAbs(xe))
eps = c(2.220446049250313e-16)
slack = z3.fpMul(RNE, z3.fpMul(RNE, c(4.0), eps), scale)
s.add(z3.fpGEQ(h, z3.fpMul(RNE, z3.fpMul(RNE, c(16.0), eps), scale)))
lhs = z3.fpSub(RNE, z3.fpAdd(RNE, x, z3.fpMul(RNE, c(1.01), h)), xe)
cond = z3.fpGT(z3.fpMul(RNE, lhs, c(1.0)), c(0.0))
h2 = z3.If(cond, z3.fpSub(RNE, xe, x), h)
which = sys.argv[1] if len(sys.argv) > 1 else 'all'
cs = {'c2': 0.2, 'c3': 0.3, 'c4': 0.8, 'c5': 8.0/9.0}
bad = []
for k, v in cs.items():
    t = z3.fpAdd(RNE, x, z3.fpMul(RNE, c(v), h2))
    bad.append(z3.fpGT(t, z3.fpAdd(RNE, xe, slack)))
xph = z3.fpAdd(RNE, x, h2)
bad.append(z3.fpGT(xph, z3.fpAdd(RNE, xe, slack)))
s.add(z3.Or(*bad))
t0 = time.time(); r = s.check(); print(r, round(time.time() - t0, 1), 's')
if r == z3.sat: print(s.model())
