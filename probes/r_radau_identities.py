import re, sympy as sp
from fractions import Fraction
src=open('/repo/src/methods/radau.rs').read()
c={}
for m in re.finditer(r'^const (\w+): Float = (.*?);', src, re.M):
    c[m.group(1)] = sp.Rational(*Fraction(eval(m.group(2).replace('_',''))).as_integer_ratio())
z1,z2,z3,yo,s=sp.symbols('z1 z2 z3 yo s')
yn = yo + z3
ak=(z1-z2)/c['C1MC2']; acont3=(ak-(z1/c['C1']))/c['C2']
c0=yn; c1=(z2-z3)/c['C2M1']; c2=(ak-c1)/c['C1M1']; c3=c2-acont3
u=lambda s: c0+s*(c1+(s-c['C2M1'])*(c2+(s-c['C1M1'])*c3))
for name,sv,target in [('s=0',0,yn),('s=-1',-1,yo),('s=C1-1',c['C1']-1,yo+z1),('s=C2-1',c['C2']-1,yo+z2)]:
    r=sp.expand(u(sv)-target)
    print(name, [float(r.coeff(v)) for v in (z1,z2,z3,yo)])
# T*TI = I
T=sp.Matrix([[c['T00'],c['T01'],c['T02']],[c['T10'],c['T11'],c['T12']],[c['T20'],1,0]])
TI=sp.Matrix([[c['TI00'],c['TI01'],c['TI02']],[c['TI10'],c['TI11'],c['TI12']],[c['TI20'],c['TI21'],c['TI22']]])
print('T*TI-I max', max(abs(float(v)) for v in (T*TI-sp.eye(3))))
# Radau IIA matrix from collocation at c=(C1,C2,1)
cs=[c['C1'],c['C2'],sp.Integer(1)]
V=sp.Matrix([[ci**j for j in range(3)] for ci in cs])
Cm=sp.Matrix([[ci**(j+1)/(j+1) for j in range(3)] for ci in cs])
A=Cm*V.inv()
Lam=TI*A.inv()*T
print('Lambda', [[round(float(v),12) for v in Lam.row(i)] for i in range(3)], 'U1',float(c['U1']),'ALPH',float(c['ALPH']),'BETA',float(c['BETA']))
