import sympy as sp
def compute_r(order, factor):
    size = order+1
    m = [[sp.Integer(0)]*size for _ in range(size)]
    for j in range(size): m[0][j] = sp.Integer(1)
    for i in range(1,size):
        for j in range(1,size):
            m[i][j] = (sp.Integer(i) - 1 - factor*j)/i
    r = [[0]*size for _ in range(size)]
    r[0] = list(m[0])
    for i in range(1,size):
        for j in range(size):
            r[i][j] = r[i-1][j]*m[i][j]
    return r
def matmul(a,b):
    rows=len(a); cols=len(b[0]); inner=len(b)
    return [[sum(a[i][k]*b[k][j] for k in range(inner)) for j in range(cols)] for i in range(rows)]
def change_d(d, order, factor):
    r = compute_r(order, factor); u = compute_r(order, sp.Integer(1)); ru = matmul(r,u)
    out = list(d)
    for row in range(order+1):
        out[row] = sum(ru[k][row]*d[k] for k in range(order+1))
    return out
def interp(xi, d, order, xold, h):
    xnew = xold + h
    p = []; 
    for k in range(order):
        f = (xi - (xnew - h*k))/(h*(k+1))
        p.append(f if k==0 else p[-1]*f)
    return d[0] + sum(d[1+k]*p[k] for k in range(order))
x, h, fac, xn = sp.symbols('x h fac xn')
for order in range(1,6):
    d = sp.symbols('d0:%d'%(order+1))
    # original polynomial: grid spacing h ending at xn  (xold = xn - h)
    p = interp(x, d, order, xn - h, h)
    d2 = change_d(list(d), order, fac)
    q = interp(x, d2, order, xn - fac*h, fac*h)
    print(order, sp.simplify(sp.expand(p - q)) == 0)
