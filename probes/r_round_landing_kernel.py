import z3, time
from fractions import Fraction
R = z3.Real
x, h, xe = z3.Reals('x h xe')
d = z3.Reals('d1 d2 d3 d4 d5 d6')
u = z3.Q(1, 2**53)
def q(f): fr = Fraction(f); return z3.Q(fr.numerator, fr.denominator)
base = [x >= -10**6, xe <= 10**6, x < xe, h > 0]
for di in d: base += [di >= -u, di <= u]
scale = z3.If(z3.If(x >= 0, x, -x) > z3.If(xe >= 0, xe, -xe), z3.If(x >= 0, x, -x), z3.If(xe >= 0, xe, -xe))
eps = z3.Q(1, 2**52)
slack = 4 * eps * scale
base += [h >= 16 * eps * scale]
lhs = ((x + q(1.01) * h * (1 + d[0])) * (1 + d[1]) - xe) * (1 + d[2])
res = {}
for name, cv in [('c2', 0.2), ('c5', 8.0/9.0), ('xph', 1.0)]:
    for case in ('notlast', 'last'):
        s = z3.Solver(); s.set('timeout', 120000); s.add(base)
        if case == 'notlast':
            s.add(lhs <= 0); h2 = h
        else:
            s.add(lhs > 0); h2 = (xe - x) * (1 + d[5])
        if name == 'xph': t = (x + h2) * (1 + d[4])
        else: t = (x + q(cv) * h2 * (1 + d[3])) * (1 + d[4])
        s.add(t > xe + slack)
        t0 = time.time(); r = s.check(); print(name, case, r, round(time.time() - t0, 2), 's', flush=True)
# sanity: base satisfiable; with zero slack the landing overshoot must be sat
s = z3.Solver(); s.add(base); print('base', s.check())
s = z3.Solver(); s.add(base); s.add(lhs > 0); h2 = (xe - x) * (1 + d[5]); t = (x + h2) * (1 + d[4]); s.add(t > xe); print('xph last, zero slack', s.check())
s = z3.Solver(); s.add(base); s.add(lhs > 0); t = (x + h) * (1 + d[4]); s.add(t > xe + slack); print('RK4-like (no landing adjust) overshoot', s.check())
