import re, sys, itertools
from fractions import Fraction
import sympy as sp

src = open('/repo/src/methods/dopri5.rs').read()
# constants
consts = {}
for m in re.finditer(r'^const (\w+): Float = (.*?);', src, re.M):
    consts[m.group(1)] = sp.Rational(*Fraction(eval(m.group(2))).as_integer_ratio())
# region: from "// Stage 2" to "// Error estimation"
a = src.index('// Stage 2'); b = src.index('// Computation of hnew')
region = src[a:b]
region = re.sub(r'//.*', '', region)

class Env(dict): pass
n = 1
h, x = sp.symbols('h x')
env = {'n': n, 'h': h, 'x': x}
env.update(consts)
for nm in ['y','y1','k1','k2','k3','k4','k5','k6','cont']:
    env[nm] = [sp.Symbol(f'{nm}0_{i}') for i in range(5*n if nm=='cont' else n)]
calls = []
ncall = [1]
class F:
    def ode(self, t, arg, out):
        ncall[0] += 1
        calls.append((t, list(arg)))
        for i in range(len(out)): out[i] = sp.Symbol(f'K{ncall[0]}_{i}')
env['f'] = F()
def conv(e):
    e = e.replace('&mut ', '').replace('&', '')
    e = re.sub(r'(\d)_f64', r'\1', e)
    return e
# tokenise statements
def run(block):
    pos = 0
    while pos < len(block):
        m = re.compile(r'\s*for (\w+) in (\w+)\.\.(\w+) \{').match(block, pos)
        if m:
            # find matching brace
            depth = 1; q = m.end()
            while depth: 
                c = block[q]; depth += (c=='{') - (c=='}'); q += 1
            body = block[m.end():q-1]
            for iv in range(int(eval(m.group(2), {}, env)), int(eval(m.group(3), {}, env))):
                env[m.group(1)] = iv
                run(body)
            pos = q; continue
        m = re.compile(r'\s*([^;{}]+);', re.S).match(block, pos)
        if not m:
            rest = block[pos:].strip()
            if rest: print('UNPARSED', rest[:80]); 
            return
        st = ' '.join(m.group(1).split())
        pos = m.end()
        if st.startswith('let mut '): st = st[8:]
        if st.startswith('let '): st = st[4:]
        st = re.sub(r'^(\w+): \w+ =', r'\1 =', st)
        mm = re.match(r'^([\w\[\]\s\*\+]+?)\s*(\+=|=)\s*(.*)$', st)
        if st.startswith('f.ode('):
            eval(conv(st), {}, env); continue
        if mm and not st.startswith('event'):
            lhs, op, rhs = mm.groups()
            try:
                val = eval(conv(rhs), {'sp': sp}, env)
            except Exception as ex:
                print('SKIP', st[:70], ex); continue
            if op == '+=': val = eval(conv(lhs), {}, env) + val
            mi = re.match(r'^(\w+)\[(.*)\]$', lhs)
            if mi: env[mi.group(1)][int(eval(mi.group(2), {}, env))] = val
            else: env[lhs] = val
        else:
            print('SKIP', st[:70])
run(region)
k1 = env['k1'][0]; y = env['y'][0]
print('ncalls', len(calls))
Ks = [k1] + [sp.Symbol(f'K{j}_0') for j in range(2, 8)]
A = []; C = []
for t, arg in calls:
    e = sp.expand(arg[0] - y)
    row = [sp.simplify(e.coeff(h*K)) if False else sp.expand(e).coeff(h,1).coeff(K,1) for K in Ks]
    A.append(row); C.append(sp.expand(t - x).coeff(h,1))
for r, c in zip(A, C): print([float(v) for v in r], float(c), float(sum(r)-c))
# b weights = last stage row (FSAL); error weights
k4err = env['k4'][0]
E = [sp.expand(k4err).coeff(h,1).coeff(K,1) for K in Ks]
print('E', [float(v) for v in E], 'sumE', float(sum(E)))

from trees import trees, gamma, phi, order
s = 7
Afull = [[sp.Integer(0)]*s] + [list(r) for r in A]
b = Afull[6]
mx = 0
for p in range(1, 7):
    res = []
    for t in trees(p):
        ph = phi(t, Afull, None, s)
        r = sum(b[i]*ph[i] for i in range(s)) - sp.Rational(1, gamma(t))
        res.append(abs(float(r)))
    print('order', p, 'ntrees', len(res), 'max|resid|', max(res))
import z3
t = trees(5)[3]
ph = phi(t, Afull, None, s)
lhs = sum(b[i]*ph[i] for i in range(s))
q = z3.RealVal(str(lhs)) - z3.Q(1, gamma(t))
sol = z3.Solver(); sol.add(z3.Or(q > z3.RealVal('1e-13'), q < -z3.RealVal('1e-13'))); print('z3', sol.check())

# ---- continuous extension of DOPRI5 from source constants (prototype: formulas transcribed)
th = sp.Symbol('th'); th1 = 1 - th
D = [consts['D1'], 0, consts['D3'], consts['D4'], consts['D5'], consts['D6'], consts['D7']]
bw = b
bth = []
for i in range(7):
    ydiff = bw[i]; k1c = 1 if i == 0 else 0; k7c = 1 if i == 6 else 0
    bspl = k1c - ydiff
    c3 = -k7c + ydiff - bspl
    c4 = D[i]
    bth.append(sp.expand(th*(ydiff + th1*(bspl + th*(c3 + th1*c4)))))
worst = 0
for p in range(1, 6):
    for t in trees(p):
        ph = phi(t, Afull, None, s)
        r = sp.expand(sum(bth[i]*ph[i] for i in range(s)) - th**p/gamma(t))
        co = max([abs(float(c)) for c in sp.Poly(r, th).all_coeffs()] or [0])
        if p <= 4: worst = max(worst, co)
        else: print('order5 tree residual coeff max', co)
print('dense order<=4 worst coeff', worst)
