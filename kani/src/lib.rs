//! Kani harnesses over the real `ivp` crate (engine "K" of /verif/DESIGN.md).
//!
//! One fact per harness. Harness names are `<property>_<fact>...`; the driver
//! (`/verif/check`) selects them by name from `/verif/lib/harnesses.py`.
#![allow(unused)]
#![allow(static_mut_refs)]

pub mod common;

#[cfg(kani)]
mod st;
#[cfg(kani)]
mod c16;
#[cfg(kani)]
mod c17;
#[cfg(kani)]
mod c18;
#[cfg(kani)]
mod c04;
#[cfg(kani)]
mod c15;
#[cfg(all(kani, feature = "python"))]
mod c20;
