//! C16 — LU factorisation and triangular solves, real and complex.
use ivp::error::{Error, LinearAlgebraError};
use ivp::matrix::{lin_solve, lin_solve_complex, lu_decomp, lu_decomp_complex, Matrix};

fn small(lim: i8) -> f64 {
    let v: i8 = kani::any();
    kani::assume(v >= -lim && v <= lim);
    v as f64
}

#[allow(dead_code)]
fn normal_or_zero() -> f64 {
    let v: f64 = kani::any();
    // 0 or 2^-200 <= |v| <= 2^200 (no overflow/underflow of 1/pivot: usual proviso)
    kani::assume(v == 0.0 || (v.abs() >= 6.223015277861142e-61 && v.abs() <= 1.6069380442589903e60));
    v
}

// ------------------------------------------------------------ (a) structural facts, all binary64

fn no_panic_pivots_in_range(n: usize) {
    // all binary64 entries, including NaN and infinities
    let mut data = vec![0.0; n * n];
    for k in 0..n * n {
        data[k] = kani::any();
    }
    let mut m = Matrix::from_vec(n, n, data);
    let mut ip = vec![0usize; n];
    let r = lu_decomp(&mut m, &mut ip);
    if r.is_ok() && n > 1 {
        let k: usize = kani::any();
        kani::assume(k < n - 1);
        assert!(ip[k] >= k && ip[k] < n);
    }
    kani::cover!(r.is_ok(), "factorisation can succeed");
    kani::cover!(r.is_err(), "factorisation can fail");
}
#[kani::proof]
#[kani::unwind(6)]
fn c16_real_no_panic_pivots_in_range_n2() {
    no_panic_pivots_in_range(2);
}
#[kani::proof]
#[kani::unwind(11)]
fn c16_real_no_panic_pivots_in_range_n3() {
    no_panic_pivots_in_range(3);
}

fn complex_no_panic(n: usize) {
    let mut ar = Matrix::zeros(n, n);
    let mut ai = Matrix::zeros(n, n);
    for i in 0..n {
        for j in 0..n {
            ar[(i, j)] = kani::any();
            ai[(i, j)] = kani::any();
        }
    }
    let mut ip = vec![0usize; n];
    let r = lu_decomp_complex(&mut ar, &mut ai, &mut ip);
    if r.is_ok() && n > 1 {
        assert!(ip[0] < n);
    }
    kani::cover!(r.is_ok(), "factorisation can succeed");
}
#[kani::proof]
#[kani::unwind(6)]
fn c16_complex_no_panic_pivots_in_range_n2() {
    complex_no_panic(2);
}

macro_rules! shape_case {
    ($name:ident, $n:expr, $m:expr, $l:expr) => {
        #[kani::proof]
        #[kani::unwind(6)]
        fn $name() {
            let (n, m, l): (usize, usize, usize) = ($n, $m, $l);
            let mut a = Matrix::zeros(n, m);
            let mut ar = Matrix::zeros(n, m);
            let mut ai = Matrix::zeros(n, m);
            if n == m {
                for i in 0..n {
                    a[(i, i)] = 1.0;
                    ai[(i, i)] = 1.0;
                }
            }
            let mut ip = vec![0usize; l];
            let r = lu_decomp(&mut a, &mut ip);
            let rc = lu_decomp_complex(&mut ar, &mut ai, &mut ip);
            if n != m {
                assert!(matches!(r, Err(Error::LinearAlgebra(LinearAlgebraError::NonSquareMatrix { .. }))));
                assert!(matches!(rc, Err(Error::LinearAlgebra(LinearAlgebraError::NonSquareMatrix { .. }))));
            } else if l != n {
                assert!(matches!(r, Err(Error::LinearAlgebra(LinearAlgebraError::PivotSizeMismatch { .. }))));
                assert!(matches!(rc, Err(Error::LinearAlgebra(LinearAlgebraError::PivotSizeMismatch { .. }))));
            } else {
                assert!(r.is_ok());
                assert!(rc.is_ok());
            }
            kani::cover!(true, "reached end");
        }
    };
}
shape_case!(c16_shape_2x3_l2, 2, 3, 2);
shape_case!(c16_shape_3x2_l3, 3, 2, 3);
shape_case!(c16_shape_2x2_l1, 2, 2, 1);
shape_case!(c16_shape_2x2_l3, 2, 2, 3);
shape_case!(c16_shape_3x3_l2, 3, 3, 2);
shape_case!(c16_shape_1x1_l2, 1, 1, 2);
shape_case!(c16_shape_1x2_l1, 1, 2, 1);
shape_case!(c16_shape_2x2_l2, 2, 2, 2);
shape_case!(c16_shape_3x3_l3, 3, 3, 3);

fn finite_moderate() -> f64 {
    let v: f64 = kani::any();
    kani::assume(v.is_finite() && v.abs() <= 1e100);
    v
}

/// A column that is exactly zero from the diagonal down at its elimination stage => SingularMatrix.
/// n = 3, first column zero (stage 0), arbitrary other entries.
#[kani::proof]
#[kani::unwind(11)]
fn c16_real_zero_column_is_singular_n3() {
    let n = 3usize;
    let mut data = vec![0.0; 9];
    for k in 0..9 {
        // finite entries: with NaN/inf the eliminated column is no longer exactly zero
        data[k] = finite_moderate();
    }
    let col: usize = kani::any();
    kani::assume(col < 3);
    // zero the column `col` from the diagonal down after making earlier columns unit vectors,
    // so that elimination reaches stage `col` with that column still exactly zero
    for c in 0..3 {
        if c < col {
            for r in 0..3 {
                data[r * 3 + c] = if r == c { 1.0 } else { 0.0 };
            }
        }
    }
    for r in 0..3 {
        if r >= col {
            data[r * 3 + col] = 0.0;
        }
    }
    let mut m = Matrix::from_vec(n, n, data);
    let mut ip = [0usize; 3];
    let r = lu_decomp(&mut m, &mut ip);
    assert!(matches!(r, Err(Error::LinearAlgebra(LinearAlgebraError::SingularMatrix))));
    kani::cover!(col == 2, "last column case reachable");
}

#[kani::proof]
#[kani::unwind(5)]
fn c16_complex_zero_column_is_singular_n2() {
    let mut ar = Matrix::zeros(2, 2);
    let mut ai = Matrix::zeros(2, 2);
    let col: usize = kani::any();
    kani::assume(col < 2);
    for i in 0..2 {
        for j in 0..2 {
            ar[(i, j)] = finite_moderate();
            ai[(i, j)] = finite_moderate();
        }
    }
    if col == 1 {
        ar[(0, 0)] = 1.0;
        ai[(0, 0)] = 0.0;
        ar[(1, 0)] = 0.0;
        ai[(1, 0)] = 0.0;
        ar[(1, 1)] = 0.0;
        ai[(1, 1)] = 0.0;
    } else {
        ar[(0, 0)] = 0.0;
        ai[(0, 0)] = 0.0;
        ar[(1, 0)] = 0.0;
        ai[(1, 0)] = 0.0;
    }
    let mut ip = [0usize; 2];
    let r = lu_decomp_complex(&mut ar, &mut ai, &mut ip);
    assert!(matches!(r, Err(Error::LinearAlgebra(LinearAlgebraError::SingularMatrix))));
}

// ------------------------------------------------------------ (b) multipliers bounded by 1

#[kani::proof]
#[kani::unwind(6)]
fn c16_real_multipliers_le_one_n2() {
    // symbolic integers in [-31,31]: the bound |m| <= 1 (+ rounding) is decided on this grid; for
    // arbitrary binary64 entries the same query needs divider/multiplier reasoning (no verdict in 600 s)
    let a = [small(31), small(31), small(31), small(31)];
    let mut m = Matrix::from_vec(2, 2, a.to_vec());
    let mut ip = [0usize; 2];
    if lu_decomp(&mut m, &mut ip).is_ok() {
        assert!(m[(1, 0)].abs() <= 1.0 + 4.0 * f64::EPSILON);
    }
}

#[kani::proof]
#[kani::unwind(11)]
fn c16_real_first_stage_multipliers_le_one_n3() {
    let mut data = vec![0.0; 9];
    for k in 0..9 {
        data[k] = small(7);
    }
    let mut m = Matrix::from_vec(3, 3, data);
    let mut ip = [0usize; 3];
    if lu_decomp(&mut m, &mut ip).is_ok() {
        let i: usize = kani::any();
        kani::assume(i == 1 || i == 2);
        assert!(m[(i, 0)].abs() <= 1.0 + 4.0 * f64::EPSILON);
    }
}

/// Pivot choice (the mechanism behind the bound): the row recorded in ip[0] holds a
/// column-0 entry of maximal magnitude.
#[kani::proof]
#[kani::unwind(11)]
fn c16_real_pivot_is_column_max_n3() {
    let mut data = vec![0.0; 9];
    for k in 0..9 {
        let v: f64 = kani::any();
        kani::assume(!v.is_nan());
        data[k] = v;
    }
    let c0 = [data[0], data[3], data[6]];
    let mut m = Matrix::from_vec(3, 3, data);
    let mut ip = [0usize; 3];
    let r = lu_decomp(&mut m, &mut ip);
    let mx = c0[0].abs().max(c0[1].abs()).max(c0[2].abs());
    if mx > 0.0 {
        // stage 0 was executed whatever happened later
        assert!(ip[0] < 3);
        assert!(c0[ip[0]].abs() == mx);
    }
}

#[kani::proof]
#[kani::unwind(5)]
fn c16_complex_pivot_is_column_max_n2() {
    let mut ar = Matrix::zeros(2, 2);
    let mut ai = Matrix::zeros(2, 2);
    for i in 0..2 {
        for j in 0..2 {
            let a: f64 = kani::any();
            let b: f64 = kani::any();
            kani::assume(a.is_finite() && b.is_finite());
            ar[(i, j)] = a;
            ai[(i, j)] = b;
        }
    }
    let n0 = ar[(0, 0)].abs() + ai[(0, 0)].abs();
    let n1 = ar[(1, 0)].abs() + ai[(1, 0)].abs();
    let mut ip = [0usize; 2];
    let _ = lu_decomp_complex(&mut ar, &mut ai, &mut ip);
    if n0 > 0.0 || n1 > 0.0 {
        assert!(ip[0] < 2);
        let chosen = if ip[0] == 0 { n0 } else { n1 };
        assert!(chosen >= n0 && chosen >= n1);
    }
}

// ------------------------------------------------------------ (c) residual, small-integer domain

fn residual_n2(lim: i8) {
    let a = [small(lim), small(lim), small(lim), small(lim)];
    let b = [small(lim), small(lim)];
    let mut m = Matrix::from_vec(2, 2, a.to_vec());
    let mut ip = [0usize; 2];
    let r = lu_decomp(&mut m, &mut ip);
    let det = a[0] * a[3] - a[1] * a[2];
    if det == 0.0 {
        assert!(r.is_err());
    } else {
        assert!(r.is_ok());
        let mut x = b;
        lin_solve(&m, &mut x, &ip);
        let eps = f64::EPSILON;
        let i: usize = kani::any();
        kani::assume(i < 2);
        let res = (a[2 * i] * x[0] + a[2 * i + 1] * x[1] - b[i]).abs();
        let sc = a[2 * i].abs() * x[0].abs() + a[2 * i + 1].abs() * x[1].abs();
        assert!(res <= 32.0 * eps * sc);
    }
}

#[kani::proof]
#[kani::unwind(5)]
fn c16_real_residual_smallint_n2() {
    residual_n2(3);
}

#[kani::proof]
#[kani::unwind(5)]
fn c16_real_residual_smallint_n2_wide() {
    residual_n2(7);
}

fn det3(a: &[f64; 9]) -> f64 {
    a[0] * (a[4] * a[8] - a[5] * a[7]) - a[1] * (a[3] * a[8] - a[5] * a[6]) + a[2] * (a[3] * a[7] - a[4] * a[6])
}

fn residual_n3(a00: f64, lim: i8) {
    let mut a = [0.0f64; 9];
    a[0] = a00;
    for k in 1..9 {
        a[k] = small(lim);
    }
    let b = [small(lim), small(lim), small(lim)];
    let mut m = Matrix::from_vec(3, 3, a.to_vec());
    let mut ip = [0usize; 3];
    let r = lu_decomp(&mut m, &mut ip);
    // small integers: the determinant is exact in binary64
    if det3(&a) == 0.0 {
        assert!(r.is_err());
    } else {
        assert!(r.is_ok());
        let mut x = b;
        lin_solve(&m, &mut x, &ip);
        let eps = f64::EPSILON;
        let i: usize = kani::any();
        kani::assume(i < 3);
        let res = (a[3 * i] * x[0] + a[3 * i + 1] * x[1] + a[3 * i + 2] * x[2] - b[i]).abs();
        let sc = a[3 * i].abs() * x[0].abs() + a[3 * i + 1].abs() * x[1].abs() + a[3 * i + 2].abs() * x[2].abs();
        assert!(res <= 48.0 * eps * sc);
    }
}

#[kani::proof]
#[kani::unwind(11)]
fn c16_real_residual_smallint_n3_a() {
    residual_n3(0.0, 1);
}
#[kani::proof]
#[kani::unwind(11)]
fn c16_real_residual_smallint_n3_b() {
    residual_n3(1.0, 1);
}
#[kani::proof]
#[kani::unwind(11)]
fn c16_real_residual_smallint_n3_c() {
    residual_n3(-1.0, 1);
}
#[kani::proof]
#[kani::unwind(11)]
fn c16_real_residual_smallint_n3_d() {
    residual_n3(2.0, 2);
}

/// Complex n = 1 and n = 2 on Gaussian small integers: residual of (Ar + i Ai) x = b.
#[kani::proof]
#[kani::unwind(5)]
fn c16_complex_residual_smallint_n1() {
    let (ar0, ai0) = (small(3), small(3));
    let (b_r, b_i) = (small(3), small(3));
    let mut ar = Matrix::from_vec(1, 1, vec![ar0]);
    let mut ai = Matrix::from_vec(1, 1, vec![ai0]);
    let mut ip = [0usize; 1];
    let r = lu_decomp_complex(&mut ar, &mut ai, &mut ip);
    if ar0 == 0.0 && ai0 == 0.0 {
        assert!(r.is_err());
    } else {
        assert!(r.is_ok());
        let mut xr = [b_r];
        let mut xi = [b_i];
        lin_solve_complex(&ar, &ai, &mut xr, &mut xi, &ip);
        let rr = ar0 * xr[0] - ai0 * xi[0] - b_r;
        let ri = ar0 * xi[0] + ai0 * xr[0] - b_i;
        let sc = (ar0.abs() + ai0.abs()) * (xr[0].abs() + xi[0].abs());
        assert!(rr.abs() + ri.abs() <= 64.0 * f64::EPSILON * sc);
    }
}

#[kani::proof]
#[kani::unwind(5)]
fn c16_complex_residual_smallint_n2() {
    let lim = 1;
    let mut a_r = [0.0f64; 4];
    let mut a_i = [0.0f64; 4];
    for k in 0..4 {
        a_r[k] = small(lim);
        a_i[k] = small(lim);
    }
    let b_r = [small(lim), small(lim)];
    let b_i = [small(lim), small(lim)];
    let mut ar = Matrix::from_vec(2, 2, a_r.to_vec());
    let mut ai = Matrix::from_vec(2, 2, a_i.to_vec());
    let mut ip = [0usize; 2];
    let r = lu_decomp_complex(&mut ar, &mut ai, &mut ip);
    // det = a00*a11 - a01*a10 (complex), exact on small integers
    let dr = (a_r[0] * a_r[3] - a_i[0] * a_i[3]) - (a_r[1] * a_r[2] - a_i[1] * a_i[2]);
    let di = (a_r[0] * a_i[3] + a_i[0] * a_r[3]) - (a_r[1] * a_i[2] + a_i[1] * a_r[2]);
    if dr == 0.0 && di == 0.0 {
        assert!(r.is_err());
    } else {
        assert!(r.is_ok());
        let mut xr = b_r;
        let mut xi = b_i;
        lin_solve_complex(&ar, &ai, &mut xr, &mut xi, &ip);
        let i: usize = kani::any();
        kani::assume(i < 2);
        let rr = a_r[2 * i] * xr[0] - a_i[2 * i] * xi[0] + a_r[2 * i + 1] * xr[1] - a_i[2 * i + 1] * xi[1] - b_r[i];
        let ri = a_r[2 * i] * xi[0] + a_i[2 * i] * xr[0] + a_r[2 * i + 1] * xi[1] + a_i[2 * i + 1] * xr[1] - b_i[i];
        let sc = (a_r[2 * i].abs() + a_i[2 * i].abs()) * (xr[0].abs() + xi[0].abs())
            + (a_r[2 * i + 1].abs() + a_i[2 * i + 1].abs()) * (xr[1].abs() + xi[1].abs());
        assert!(rr.abs() + ri.abs() <= 128.0 * f64::EPSILON * sc);
    }
}

/// lin_solve modifies only `b`: the matrix and pivots are taken by shared reference (type-level
/// fact); here additionally: a factorised matrix is bit-identical before and after a solve.
#[kani::proof]
#[kani::unwind(5)]
fn c16_solve_leaves_factors_untouched_n2() {
    let a = [small(3), small(3), small(3), small(3)];
    let mut m = Matrix::from_vec(2, 2, a.to_vec());
    let mut ip = [0usize; 2];
    if lu_decomp(&mut m, &mut ip).is_ok() {
        let before = [m[(0, 0)].to_bits(), m[(0, 1)].to_bits(), m[(1, 0)].to_bits(), m[(1, 1)].to_bits()];
        let ipb = ip;
        let mut b = [small(3), small(3)];
        lin_solve(&m, &mut b, &ip);
        assert!(before[0] == m[(0, 0)].to_bits() && before[1] == m[(0, 1)].to_bits());
        assert!(before[2] == m[(1, 0)].to_bits() && before[3] == m[(1, 1)].to_bits());
        assert!(ipb[0] == ip[0] && ipb[1] == ip[1]);
    }
}

/// Complex n = 2 with a FIXED right-hand side (1+2i, 3-i) and symbolic Gaussian-integer matrix
/// entries in [-1,1]: wrong factors give a wrong solution for this b, so the residual still
/// decides the elimination branches (real / imaginary-only / general multiplier) — at a fraction
/// of the cost of the fully symbolic harness (1685 s).
fn complex_residual_fixed_rhs(a_r: [f64; 4], a_i: [f64; 4]) {
    let b_r = [1.0, 3.0];
    let b_i = [2.0, -1.0];
    let mut ar = Matrix::from_vec(2, 2, a_r.to_vec());
    let mut ai = Matrix::from_vec(2, 2, a_i.to_vec());
    let mut ip = [0usize; 2];
    let r = lu_decomp_complex(&mut ar, &mut ai, &mut ip);
    let dr = (a_r[0] * a_r[3] - a_i[0] * a_i[3]) - (a_r[1] * a_r[2] - a_i[1] * a_i[2]);
    let di = (a_r[0] * a_i[3] + a_i[0] * a_r[3]) - (a_r[1] * a_i[2] + a_i[1] * a_r[2]);
    if dr == 0.0 && di == 0.0 {
        assert!(r.is_err());
    } else {
        assert!(r.is_ok());
        let mut xr = b_r;
        let mut xi = b_i;
        lin_solve_complex(&ar, &ai, &mut xr, &mut xi, &ip);
        let i: usize = kani::any();
        kani::assume(i < 2);
        let rr = a_r[2 * i] * xr[0] - a_i[2 * i] * xi[0] + a_r[2 * i + 1] * xr[1] - a_i[2 * i + 1] * xi[1] - b_r[i];
        let ri = a_r[2 * i] * xi[0] + a_i[2 * i] * xr[0] + a_r[2 * i + 1] * xi[1] + a_i[2 * i + 1] * xr[1] - b_i[i];
        let sc = (a_r[2 * i].abs() + a_i[2 * i].abs()) * (xr[0].abs() + xi[0].abs())
            + (a_r[2 * i + 1].abs() + a_i[2 * i + 1].abs()) * (xr[1].abs() + xi[1].abs());
        assert!(rr.abs() + ri.abs() <= 128.0 * f64::EPSILON * sc);
    }
    kani::cover!(r.is_ok(), "nonsingular case reachable");
}

#[kani::proof]
#[kani::unwind(5)]
fn c16_complex_residual_fixed_rhs_general() {
    let a_r = [small(1), small(1), small(1), small(1)];
    let a_i = [small(1), small(1), small(1), small(1)];
    complex_residual_fixed_rhs(a_r, a_i);
}

/// Pivot-row entry right of the pivot purely imaginary (the `mr == 0.0` elimination branch).
#[kani::proof]
#[kani::unwind(5)]
fn c16_complex_residual_fixed_rhs_imag_multiplier() {
    let a_r = [small(2), 0.0, small(2), 0.0];
    let a_i = [small(2), small(2), small(2), small(2)];
    kani::assume(a_i[1] != 0.0 && a_i[3] != 0.0);
    complex_residual_fixed_rhs(a_r, a_i);
}

/// Purely real pivot-row entry (the `mi == 0.0` branch).
#[kani::proof]
#[kani::unwind(5)]
fn c16_complex_residual_fixed_rhs_real_multiplier() {
    let a_r = [small(2), small(2), small(2), small(2)];
    let a_i = [small(2), 0.0, small(2), 0.0];
    kani::assume(a_r[1] != 0.0 && a_r[3] != 0.0);
    complex_residual_fixed_rhs(a_r, a_i);
}

/// Complex elimination update, n = 2, checked WITHOUT solving: after factorisation the (1,1) entry
/// must be a11 + m * a01 (complex product) for the stored multiplier m = entry (1,0) and the pivot
/// row's a01 -- whichever of the three code branches (real / imaginary-only / general multiplier)
/// computed it. Entries are small Gaussian integers; no pivoting ambiguity: |a00| is made maximal.
fn complex_update_consistent(a01r: f64, a01i: f64) {
    let (a00r, a00i) = (small(2), small(2));
    let (a10r, a10i) = (small(2), small(2));
    let (a11r, a11i) = (small(2), small(2));
    kani::assume(a00r.abs() + a00i.abs() > a10r.abs() + a10i.abs()); // row 0 is the pivot row
    let mut ar = Matrix::from_vec(2, 2, vec![a00r, a01r, a10r, a11r]);
    let mut ai = Matrix::from_vec(2, 2, vec![a00i, a01i, a10i, a11i]);
    let mut ip = [0usize; 2];
    let _ = lu_decomp_complex(&mut ar, &mut ai, &mut ip);
    assert!(ip[0] == 0);
    let (mr, mi) = (ar[(1, 0)], ai[(1, 0)]);
    let er = a11r + (mr * a01r - mi * a01i);
    let ei = a11i + (mi * a01r + mr * a01i);
    let tol = 16.0 * f64::EPSILON * (1.0 + er.abs() + ei.abs() + a11r.abs() + a11i.abs());
    assert!((ar[(1, 1)] - er).abs() <= tol && (ai[(1, 1)] - ei).abs() <= tol, "eliminated entry is a11 + m*a01");
    kani::cover!(true, "reached end");
}

#[kani::proof]
#[kani::unwind(5)]
fn c16_complex_update_imag_multiplier() {
    let b = small(3);
    kani::assume(b != 0.0);
    complex_update_consistent(0.0, b);
}

#[kani::proof]
#[kani::unwind(5)]
fn c16_complex_update_real_multiplier() {
    let a = small(3);
    kani::assume(a != 0.0);
    complex_update_consistent(a, 0.0);
}

#[kani::proof]
#[kani::unwind(5)]
fn c16_complex_update_general_multiplier() {
    let a = small(2);
    let b = small(2);
    kani::assume(a != 0.0 && b != 0.0);
    complex_update_consistent(a, b);
}
