//! C18 — reported statistics count what actually happened.
//! Data facts on a concrete time grid (x0 = 0, xend = 1, first_step = 0.5, and its mirror):
//! the RHS/Jacobian return nondeterministic values, so every accept/reject pattern that fits in
//! the call budget is covered.
use crate::common::*;
use crate::st::*;

fn counting(m: u8, mode: u8, budget: usize, max_steps: usize, backward: bool, auto_h: bool) {
    let (x0, xend) = if backward { (1.0, 0.0) } else { (0.0, 1.0) };
    let sh = Sh::new(mode, x0, xend, budget);
    let cfg = Cfg { first_step: if auto_h { None } else { Some(0.5) }, max_step: None, max_steps, rtol: 1e-3, atol: 1e-6 };
    let r = solve(m, &sh, &cfg);
    judge_at_return(m, &sh, &cfg, &r);
}

macro_rules! c18 {
    ($name:ident, $m:expr, $mode:expr, $unw:expr, $budget:expr, $ms:expr, $back:expr, $auto:expr) => {
        #[kani::proof]
        #[kani::unwind($unw)]
        #[kani::stub(f64::powf, powf_model)]
        #[kani::stub(f64::powi, powi_model)]
        fn $name() {
            counting($m, $mode, $budget, $ms, $back, $auto);
        }
    };
}

// RK4: h = 0.5 on [0,1] is two steps (4 evaluations each + the initial one)
c18!(c18_rk4_nfev, M_RK4, F_ODE_COUNT, 4, 12, 3, false, false);
c18!(c18_rk4_naccpt, M_RK4, F_ACCEPTED, 4, 12, 3, false, false);
c18!(c18_rk4_nfev_back, M_RK4, F_ODE_COUNT, 4, 12, 3, true, false);
// RK23: 3 evaluations per trial
c18!(c18_rk23_nfev, M_RK23, F_ODE_COUNT, 5, 10, 2, false, false);
c18!(c18_rk23_naccpt, M_RK23, F_ACCEPTED, 5, 10, 2, false, false);
c18!(c18_rk23_nfev_auto_h, M_RK23, F_ODE_COUNT, 5, 8, 1, false, true);
c18!(c18_rk23_nfev_back, M_RK23, F_ODE_COUNT, 5, 10, 2, true, false);
// DOPRI5: 6 per trial
c18!(c18_dopri5_nfev, M_DOPRI5, F_ODE_COUNT, 4, 14, 2, false, false);
c18!(c18_dopri5_naccpt, M_DOPRI5, F_ACCEPTED, 4, 14, 2, false, false);
c18!(c18_dopri5_nfev_auto_h, M_DOPRI5, F_ODE_COUNT, 4, 9, 1, false, true);
c18!(c18_dopri5_nfev_back, M_DOPRI5, F_ODE_COUNT, 4, 14, 2, true, false);
// DOP853: 11 per trial + 1 + 3 on acceptance
c18!(c18_dop853_nfev, M_DOP853, F_ODE_COUNT, 4, 32, 2, false, false);
c18!(c18_dop853_naccpt, M_DOP853, F_ACCEPTED, 4, 32, 2, false, false);
// Radau / BDF: one main-loop iteration at most (newton_maxiter = 1), Jacobian supplied by the stub
c18!(c18_radau_nfev, M_RADAU, F_ODE_COUNT, 4, 7, 1, false, false);
c18!(c18_radau_njev, M_RADAU, F_JAC_COUNT, 4, 7, 1, false, false);
c18!(c18_radau_naccpt, M_RADAU, F_ACCEPTED, 4, 7, 1, false, false);
c18!(c18_bdf_nfev, M_BDF, F_ODE_COUNT, 9, 4, 1, false, false);
c18!(c18_bdf_njev, M_BDF, F_JAC_COUNT, 9, 4, 1, false, false);
c18!(c18_bdf_naccpt, M_BDF, F_ACCEPTED, 9, 4, 1, false, false);
c18!(c18_dopri5_nfev_k1, M_DOPRI5, F_ODE_COUNT, 4, 8, 1, false, false);
c18!(c18_rk23_nfev_k1, M_RK23, F_ODE_COUNT, 5, 5, 1, false, false);
c18!(c18_dop853_nfev_k1, M_DOP853, F_ODE_COUNT, 4, 17, 1, false, false);
