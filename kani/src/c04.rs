//! C04 — the bit-precise half: non-finite right-hand sides, panics, the underflow guard.
//! (The NaN-free shrink / progress obligations are proved inductively by engine R.)
use crate::common::*;
use crate::st::*;

fn nan_case(m: u8, mode: u8, budget: usize, stages: usize, h0: Option<f64>, x0: f64, xend: f64) {
    let mut sh = Sh::new(mode, x0, xend, budget);
    sh.finite_rhs = false; // the right-hand side may return NaN, +-inf, anything
    sh.stages = stages;
    let cfg = Cfg { first_step: h0, max_step: None, max_steps: 4, rtol: 1e-3, atol: 1e-6 };
    let r = solve(m, &sh, &cfg);
    judge_at_return(m, &sh, &cfg, &r);
}

macro_rules! c04 {
    ($name:ident, $m:expr, $mode:expr, $unw:expr, $budget:expr, $stages:expr, $h0:expr, $x0:expr, $xend:expr) => {
        #[kani::proof]
        #[kani::unwind($unw)]
        #[kani::stub(f64::powf, powf_model)]
        #[kani::stub(f64::powi, powi_model)]
        fn $name() {
            nan_case($m, $mode, $budget, $stages, $h0, $x0, $xend);
        }
    };
}

fn nan_only_case(m: u8, budget: usize, stages: usize, x0: f64, xend: f64) {
    let mut sh = Sh::new(F_FINITE, x0, xend, budget);
    sh.finite_rhs = false;
    sh.nan_only = true; // NaN or |value| <= 1e6: nothing overflows, so a non-finite state can only come from an accepted NaN
    sh.stages = stages;
    let cfg = Cfg { first_step: Some((xend - x0).abs()), max_step: None, max_steps: 4, rtol: 1e-3, atol: 1e-6 };
    let r = solve(m, &sh, &cfg);
    judge_at_return(m, &sh, &cfg, &r);
}

macro_rules! c04n {
    ($name:ident, $m:expr, $unw:expr, $budget:expr, $stages:expr, $x0:expr, $xend:expr) => {
        #[kani::proof]
        #[kani::unwind($unw)]
        #[kani::stub(f64::powf, powf_model)]
        #[kani::stub(f64::powi, powi_model)]
        fn $name() {
            nan_only_case($m, $budget, $stages, $x0, $xend);
        }
    };
}
// Success => no NaN state was handed out, when the right-hand side returns NaN or moderate values (first step lands on xend)
c04n!(c04_success_nan_free_rk23, M_RK23, 5, 5, 3, 0.0, 1.0);
c04n!(c04_success_nan_free_dopri5, M_DOPRI5, 5, 8, 6, 0.0, 1.0);
c04n!(c04_success_nan_free_dop853, M_DOP853, 5, 17, 11, 0.0, 1.0);
c04n!(c04_success_nan_free_dopri5_back, M_DOPRI5, 5, 8, 6, 1.0, 0.0);

// a rejected first trial (including a NaN / inf error norm) is retried with a step <= 0.95 |h|
c04!(c04_nan_reject_shrinks_rk23, M_RK23, F_REJECT_SHRINKS, 5, 5, 3, Some(0.5), 0.0, 1.0);
c04!(c04_nan_reject_shrinks_dopri5, M_DOPRI5, F_REJECT_SHRINKS, 5, 8, 6, Some(0.5), 0.0, 1.0);
c04!(c04_nan_reject_shrinks_dop853, M_DOP853, F_REJECT_SHRINKS, 5, 13, 11, Some(0.5), 0.0, 1.0);
c04!(c04_nan_reject_shrinks_rk23_back, M_RK23, F_REJECT_SHRINKS, 5, 5, 3, Some(0.5), 1.0, 0.0);
// Success => every state handed to a callback is finite (first step lands on xend)
c04!(c04_success_finite_rk23, M_RK23, F_FINITE, 5, 5, 3, Some(1.0), 0.0, 1.0);
c04!(c04_success_finite_dopri5, M_DOPRI5, F_FINITE, 5, 8, 6, Some(1.0), 0.0, 1.0);
c04!(c04_success_finite_dop853, M_DOP853, F_FINITE, 5, 17, 11, Some(1.0), 0.0, 1.0);
// no panic with arbitrary right-hand sides, automatic initial step
c04!(c04_no_panic_rk23_auto_h, M_RK23, F_NO_PANIC, 5, 6, 3, None, 0.0, 1.0);
c04!(c04_no_panic_dopri5_auto_h, M_DOPRI5, F_NO_PANIC, 5, 9, 6, None, 0.0, 1.0);
c04!(c04_no_panic_rk4, M_RK4, F_NO_PANIC, 5, 6, 4, Some(1.0), 0.0, 1.0);

/// The underflow guard, bit-precisely: a first step far below the resolution of x0 ends the run
/// with a non-success status before anything is accepted.
fn guard_case(m: u8) {
    let x0: f64 = kani::any();
    kani::assume(x0.is_finite() && x0.abs() >= 1.0 && x0.abs() <= 1e6);
    let xend = x0 + 1.0;
    let mut sh = Sh::new(F_GUARD, x0, xend, 12);
    sh.finite_rhs = false;
    let h0 = x0.abs() * 8.673617379884035e-19; // 2^-60
    let cfg = Cfg { first_step: Some(h0), max_step: None, max_steps: 4, rtol: 1e-3, atol: 1e-6 };
    let r = solve(m, &sh, &cfg);
    judge_at_return(m, &sh, &cfg, &r);
}

macro_rules! c04_guard {
    ($name:ident, $m:expr) => {
        #[kani::proof]
        #[kani::unwind(5)]
        #[kani::stub(f64::powf, powf_model)]
        fn $name() {
            guard_case($m);
        }
    };
}
c04_guard!(c04_guard_rk23, M_RK23);
c04_guard!(c04_guard_dopri5, M_DOPRI5);
c04_guard!(c04_guard_dop853, M_DOP853);
