//! C15 — mass-matrix default, storage independence of what the solvers read, default FD Jacobian.
use ivp::matrix::{Matrix, MatrixStorage};
use ivp::prelude::*;
use std::cell::Cell;

struct Dflt;
impl IVP for Dflt {
    fn ode(&self, _x: f64, _y: &[f64], d: &mut [f64]) {
        d[0] = 0.0;
    }
}

fn storage(which: u8, ml: usize, mu: usize) -> MatrixStorage {
    match which {
        0 => MatrixStorage::Identity,
        1 => MatrixStorage::Full,
        _ => MatrixStorage::Banded { ml, mu },
    }
}

/// With no mass matrix supplied the problem is y' = f whatever mass storage is selected:
/// the trait's default `mass` leaves the identity in the pre-allocated matrix the solver passes.
macro_rules! mass_default {
    ($name:ident, $n:expr, $which:expr, $ml:expr, $mu:expr) => {
        #[kani::proof]
        #[kani::unwind(6)]
        fn $name() {
            let n: usize = $n;
            let mut m = Matrix::from_storage(n, n, storage($which, $ml, $mu));
            Dflt.mass(&mut m);
            let i: usize = kani::any();
            let j: usize = kani::any();
            kani::assume(i < n && j < n);
            assert!(m[(i, j)] == if i == j { 1.0 } else { 0.0 }, "default mass matrix is the identity");
            kani::cover!(true, "reached end");
        }
    };
}
mass_default!(c15_mass_default_identity_n2, 2, 0, 0, 0);
mass_default!(c15_mass_default_full_n1, 1, 1, 0, 0);
mass_default!(c15_mass_default_full_n3, 3, 1, 0, 0);
mass_default!(c15_mass_default_banded_n3_11, 3, 2, 1, 1);
mass_default!(c15_mass_default_banded_n3_00, 3, 2, 0, 0);
mass_default!(c15_mass_default_banded_n2_10, 2, 2, 1, 0);

/// Full and Banded storage holding the same in-band entries read back the same dense matrix
/// (what Radau/BDF see through Index): n = 3, concrete band profile, symbolic entries, symbolic (i,j).
macro_rules! storage_indep {
    ($name:ident, $n:expr, $ml:expr, $mu:expr) => {
        #[kani::proof]
        #[kani::unwind(6)]
        fn $name() {
            let n: usize = $n;
            let (ml, mu): (usize, usize) = ($ml, $mu);
            let mut f = Matrix::from_storage(n, n, MatrixStorage::Full);
            let mut b = Matrix::from_storage(n, n, MatrixStorage::Banded { ml, mu });
            for r in 0..n {
                for c in 0..n {
                    if r <= c + ml && c <= r + mu {
                        let v: f64 = kani::any();
                        kani::assume(!v.is_nan());
                        f[(r, c)] = v;
                        b[(r, c)] = v;
                    }
                }
            }
            let i: usize = kani::any();
            let j: usize = kani::any();
            kani::assume(i < n && j < n);
            assert!(f[(i, j)].to_bits() == b[(i, j)].to_bits() || (f[(i, j)] == 0.0 && b[(i, j)] == 0.0), "Full and Banded storage read back the same entries");
            kani::cover!(true, "reached end");
        }
    };
}
storage_indep!(c15_storage_independent_n3_11, 3, 1, 1);
storage_indep!(c15_storage_independent_n3_20, 3, 2, 0);
storage_indep!(c15_storage_independent_n3_02, 3, 0, 2);
storage_indep!(c15_storage_independent_n2_01, 2, 0, 1);

/// Default finite-difference Jacobian on a linear right-hand side with small-integer coefficients:
/// n+1 evaluations, all at time x, input untouched, entries equal the coefficients to 2^-20.
struct Lin {
    a: [[f64; 2]; 2],
    calls: Cell<usize>,
    bad_time: Cell<bool>,
    bad_delta: Cell<bool>,
    base: [f64; 2],
    x: f64,
}
impl IVP for Lin {
    fn ode(&self, x: f64, y: &[f64], d: &mut [f64]) {
        self.calls.set(self.calls.get() + 1);
        if x.to_bits() != self.x.to_bits() {
            self.bad_time.set(true);
        }
        if self.calls.get() > 1 {
            // a perturbed evaluation: exactly one component moved, by sqrt(eps) * max(|y_j|, 1) (the documented size)
            let mut moved = 0;
            for c in 0..2 {
                if y[c].to_bits() != self.base[c].to_bits() {
                    moved += 1;
                    let want = 1.4901161193847656e-8 * self.base[c].abs().max(1.0);
                    let got = (y[c] - self.base[c]).abs();
                    if !((got - want).abs() <= want * 1e-6) {
                        self.bad_delta.set(true);
                    }
                }
            }
            if moved != 1 {
                self.bad_delta.set(true);
            }
        }
        for r in 0..2 {
            d[r] = self.a[r][0] * y[0] + self.a[r][1] * y[1];
        }
    }
}

#[kani::proof]
#[kani::unwind(4)]
fn c15_fd_jacobian_linear_n2() {
    let mut a = [[0.0f64; 2]; 2];
    for r in 0..2 {
        for c in 0..2 {
            let k: i8 = kani::any();
            kani::assume(k >= -3 && k <= 3);
            a[r][c] = k as f64;
        }
    }
    let yk: [i8; 2] = kani::any();
    kani::assume(yk[0] >= -2 && yk[0] <= 2 && yk[1] >= -2 && yk[1] <= 2);
    let y = [yk[0] as f64, yk[1] as f64];
    let f = Lin { a, calls: Cell::new(0), bad_time: Cell::new(false), bad_delta: Cell::new(false), base: y, x: 0.25 };
    let mut j = Matrix::zeros(2, 2);
    f.jac(0.25, &y, &mut j);
    assert!(f.calls.get() == 3, "default Jacobian uses n+1 right-hand-side evaluations");
    assert!(!f.bad_time.get(), "default Jacobian evaluates the right-hand side at time x only");
    assert!(!f.bad_delta.get(), "each perturbed evaluation moves exactly one component by sqrt(eps)*max(|y_j|,1)");
    let r: usize = kani::any();
    let c: usize = kani::any();
    kani::assume(r < 2 && c < 2);
    let err = (j[(r, c)] - a[r][c]).abs();
    assert!(err <= 1e-5, "finite-difference entry equals the linear coefficient");
    kani::cover!(true, "reached end");
}
