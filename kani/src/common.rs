//! Shared stubs and models. Everything here is part of the claim of every harness using it.
use ivp::prelude::*;
use std::cell::Cell;

/// Contract model of `f64::powf` (Kani's own model is unconstrained and nondeterministic).
/// Over-approximation: result is any value satisfying true facts of the real function;
/// monotonicity is NOT assumed.
#[cfg(kani)]
pub fn powf_model(x: f64, e: f64) -> f64 {
    if x.is_nan() || e.is_nan() {
        return f64::NAN;
    }
    if e == 0.0 || x == 1.0 {
        return 1.0;
    }
    if x < 0.0 {
        // only non-integer exponents occur in the crate's controllers
        return f64::NAN;
    }
    let r: f64 = kani::any();
    kani::assume(!r.is_nan() && r >= 0.0);
    if x == 0.0 {
        if e < 0.0 {
            return f64::INFINITY;
        } else {
            return 0.0;
        }
    }
    if x == f64::INFINITY {
        if e < 0.0 {
            return 0.0;
        } else {
            return f64::INFINITY;
        }
    }
    if x > 1.0 && e < 0.0 {
        kani::assume(r <= 1.0);
    }
    if x > 1.0 && e > 0.0 {
        kani::assume(r >= 1.0);
    }
    if x < 1.0 && e > 0.0 {
        kani::assume(r <= 1.0);
    }
    if x < 1.0 && e < 0.0 {
        kani::assume(r >= 1.0);
    }
    r
}

/// Contract model of `f64::powi(x, n)` for the only use in the crate (`powi(2)`).
#[cfg(kani)]
pub fn powi_model(x: f64, n: i32) -> f64 {
    if x.is_nan() {
        return f64::NAN;
    }
    if n == 2 {
        return x * x;
    }
    let r: f64 = kani::any();
    kani::assume(!r.is_nan());
    r
}

/// Insertion sort with `slice::sort_by`'s contract; used to stub std's drift sort
/// (see DESIGN.md section 2). Must live in a generic impl of the same shape as std's.
pub struct Helper<T>(std::marker::PhantomData<T>);
impl<T> Helper<T> {
    pub fn sort_by<F>(s: &mut [T], mut f: F)
    where
        F: FnMut(&T, &T) -> std::cmp::Ordering,
    {
        let n = s.len();
        let mut i = 1;
        while i < n {
            let mut j = i;
            while j > 0 && f(&s[j - 1], &s[j]) == std::cmp::Ordering::Greater {
                s.swap(j - 1, j);
                j -= 1;
            }
            i += 1;
        }
    }
}

/// "The value is the time": makes the time an interpolated value was taken at observable.
pub fn interp_id(xi: f64, yi: &mut [f64], _c: &[f64], _xold: f64, _h: f64) {
    yi[0] = xi;
}

pub fn ulp_scale(x0: f64, xend: f64) -> f64 {
    let a = x0.abs();
    let b = xend.abs();
    if a > b { a } else { b }
}
