//! C17 — matrix values do not depend on the storage scheme.
//! Dense reference model: `[[f64; 4]; 4]` built inside the harness.
use ivp::matrix::{Matrix, MatrixStorage};

const NMAX: usize = 4;
type Dense = [[f64; NMAX]; NMAX];

fn in_band(i: usize, j: usize, ml: usize, mu: usize) -> bool {
    // i - j in [-mu, ml]
    (i <= j + ml) && (j <= i + mu)
}

fn any_small() -> f64 {
    // Entries come from a small set of signed powers of two (and zero). The operations under
    // test are entrywise, so what the solver has to decide is the ROUTING of entries (index
    // maps, band re-basing, densification), not float arithmetic; sums/differences/products of
    // these values identify their operands uniquely. Arbitrary binary64 entries make the SAT
    // problem an adder-equivalence proof (no verdict in 600 s) and are outside the claim.
    let k: u8 = kani::any();
    kani::assume(k < 6);
    match k {
        0 => 0.0,
        1 => 1.0,
        2 => -2.0,
        3 => 4.0,
        4 => -0.5,
        _ => 16.0,
    }
}

/// kind 0 = Identity, 1 = Full, 2 = Banded{ml,mu}. Entries written through IndexMut only.
fn build(kind: u8, n: usize, ml: usize, mu: usize) -> (Matrix, Dense) {
    let mut d: Dense = [[0.0; NMAX]; NMAX];
    let st = match kind {
        0 => MatrixStorage::Identity,
        1 => MatrixStorage::Full,
        _ => MatrixStorage::Banded { ml, mu },
    };
    let mut m = Matrix::from_storage(n, n, st);
    for i in 0..n {
        for j in 0..n {
            match kind {
                0 => {
                    d[i][j] = if i == j { 1.0 } else { 0.0 };
                }
                1 => {
                    let v = any_small();
                    m[(i, j)] = v;
                    d[i][j] = v;
                }
                _ => {
                    if in_band(i, j, ml, mu) {
                        let v = any_small();
                        m[(i, j)] = v;
                        d[i][j] = v;
                    }
                }
            }
        }
    }
    (m, d)
}

fn pick(n: usize) -> (usize, usize) {
    let i: usize = kani::any();
    let j: usize = kani::any();
    kani::assume(i < n && j < n);
    (i, j)
}

fn bands(n: usize) -> (usize, usize) {
    let ml: usize = kani::any();
    let mu: usize = kani::any();
    kani::assume(ml <= n && mu <= n);
    (ml, mu)
}

macro_rules! per_n {
    ($name:ident, $n:expr, $unw:expr, $body:expr) => {
        #[kani::proof]
        #[kani::unwind($unw)]
        fn $name() {
            let f: fn(usize) = $body;
            f($n);
        }
    };
}

// ---------------------------------------------------------------- constructors

fn constructors_readable(n: usize) {
    let which: u8 = kani::any();
    kani::assume(which < 10);
    let (ml, mu) = bands(n);
    let (i, j) = pick(n);
    let delta = if i == j { 1.0 } else { 0.0 };
    match which {
        0 => {
            let m = Matrix::identity(n);
            assert!(m[(i, j)] == delta);
        }
        1 => {
            let m = Matrix::full(n, n);
            assert!(m[(i, j)] == 0.0);
        }
        2 => {
            let m = Matrix::zeros(n, n);
            assert!(m[(i, j)] == 0.0);
        }
        3 => {
            let m = Matrix::banded(n, ml, mu);
            assert!(m[(i, j)] == 0.0);
        }
        4 => {
            let m = Matrix::lower_triangular(n);
            assert!(m[(i, j)] == 0.0);
            if let MatrixStorage::Banded { ml, mu } = m.storage {
                assert!(ml + 1 >= n && mu == 0);
            }
        }
        5 => {
            let m = Matrix::upper_triangular(n);
            assert!(m[(i, j)] == 0.0);
            if let MatrixStorage::Banded { ml, mu } = m.storage {
                assert!(mu + 1 >= n && ml == 0);
            }
        }
        6 => {
            let kind: u8 = kani::any();
            kani::assume(kind < 3);
            let st = match kind {
                0 => MatrixStorage::Identity,
                1 => MatrixStorage::Full,
                _ => MatrixStorage::Banded { ml, mu },
            };
            let m = Matrix::from_storage(n, n, st);
            assert!(m[(i, j)] == if kind == 0 { delta } else { 0.0 });
        }
        7 => {
            let mut dg = vec![0.0; n];
            for k in 0..n {
                dg[k] = any_small();
            }
            let expect = if i == j { dg[i] } else { 0.0 };
            let m = Matrix::diagonal(dg);
            assert!(m[(i, j)] == expect);
        }
        8 => {
            let mut data = vec![0.0; n * n];
            for k in 0..n * n {
                data[k] = any_small();
            }
            let expect = data[i * n + j];
            let m = Matrix::from_vec(n, n, data);
            assert!(m[(i, j)] == expect);
        }
        _ => {
            // Matrix::square(n): every entry must be readable (documented as an n x n matrix)
            let m = Matrix::square(n);
            let v = m[(i, j)];
            assert!(v == 0.0);
        }
    }
    kani::cover!(true, "reached end");
}
per_n!(c17_constructors_n1, 1, 4, constructors_readable);
per_n!(c17_constructors_n2, 2, 6, constructors_readable);
per_n!(c17_constructors_n3, 3, 11, constructors_readable);
per_n!(c17_constructors_n4, 4, 18, constructors_readable);

// ---------------------------------------------------------------- writes

fn banded_write_exact(n: usize) {
    let (ml, mu) = bands(n);
    let mut m = Matrix::banded(n, ml, mu);
    let (i1, j1) = pick(n);
    let (i2, j2) = pick(n);
    kani::assume(in_band(i1, j1, ml, mu) && in_band(i2, j2, ml, mu));
    let v1 = any_small();
    let v2 = any_small();
    m[(i1, j1)] = v1;
    m[(i2, j2)] = v2;
    let (p, q) = pick(n);
    let expect = if (p, q) == (i2, j2) {
        v2
    } else if (p, q) == (i1, j1) {
        v1
    } else {
        0.0
    };
    assert!(m[(p, q)] == expect);
    kani::cover!(true, "reached end");
}
per_n!(c17_banded_write_n2, 2, 4, banded_write_exact);
per_n!(c17_banded_write_n3, 3, 5, banded_write_exact);
per_n!(c17_banded_write_n4, 4, 6, banded_write_exact);

fn full_write_exact(n: usize) {
    let mut m = Matrix::zeros(n, n);
    let (i1, j1) = pick(n);
    let (i2, j2) = pick(n);
    let v1 = any_small();
    let v2 = any_small();
    m[(i1, j1)] = v1;
    m[(i2, j2)] = v2;
    let (p, q) = pick(n);
    let expect = if (p, q) == (i2, j2) {
        v2
    } else if (p, q) == (i1, j1) {
        v1
    } else {
        0.0
    };
    assert!(m[(p, q)] == expect);
    kani::cover!(true, "reached end");
}
per_n!(c17_full_write_n3, 3, 5, full_write_exact);
per_n!(c17_full_write_n4, 4, 6, full_write_exact);

#[kani::proof]
#[kani::unwind(6)]
#[kani::should_panic]
fn c17_out_of_band_write_panics() {
    let n: usize = kani::any();
    kani::assume(n >= 1 && n <= NMAX);
    let (ml, mu) = bands(n);
    let mut m = Matrix::banded(n, ml, mu);
    let (i, j) = pick(n);
    kani::assume(!in_band(i, j, ml, mu));
    m[(i, j)] = 1.0;
}

#[kani::proof]
#[kani::unwind(6)]
#[kani::should_panic]
fn c17_identity_write_panics() {
    let n: usize = kani::any();
    kani::assume(n >= 1 && n <= NMAX);
    let mut m = Matrix::identity(n);
    let (i, j) = pick(n);
    m[(i, j)] = 1.0;
}

/// Reading outside the band is fine and yields zero.

#[kani::proof]
#[kani::unwind(6)]
fn c17_out_of_band_read_zero() {
    let n: usize = kani::any();
    kani::assume(n >= 2 && n <= NMAX);
    let (ml, mu) = bands(n);
    let m = Matrix::banded(n, ml, mu);
    let (i, j) = pick(n);
    kani::assume(!in_band(i, j, ml, mu));
    // reading out of band is fine and yields 0
    assert!(m[(i, j)] == 0.0);
    kani::cover!(true, "reached end");
}

// ---------------------------------------------------------------- data-loop operations
// One harness per concrete (n, storage, ml, mu) profile, generated by gen/gen_c17.py.

fn addsub(n: usize, ka: u8, mla: usize, mua: usize, kb: u8, mlb: usize, mub: usize) {
    let (a, da) = build(ka, n, mla, mua);
    let (b, db) = build(kb, n, mlb, mub);
    let (i, j) = pick(n);
    let sub: bool = kani::any();
    let r = if sub { a - b } else { a + b };
    let expect = if sub { da[i][j] - db[i][j] } else { da[i][j] + db[i][j] };
    assert!(r[(i, j)] == expect);
    kani::cover!(true, "reached end");
}

fn assign(n: usize, ka: u8, mla: usize, mua: usize, kb: u8, mlb: usize, mub: usize) {
    let (mut a, da) = build(ka, n, mla, mua);
    let (b, db) = build(kb, n, mlb, mub);
    let (i, j) = pick(n);
    let op: u8 = kani::any();
    kani::assume(op < 3);
    let expect = if op == 0 { da[i][j] + db[i][j] } else { da[i][j] - db[i][j] };
    match op {
        0 => a += b,
        1 => a -= b,
        _ => a -= &b,
    }
    assert!(a[(i, j)] == expect);
    kani::cover!(true, "reached end");
}

fn scalar(n: usize, ka: u8, ml: usize, mu: usize) {
    let (a, da) = build(ka, n, ml, mu);
    let (i, j) = pick(n);
    let k: u8 = kani::any();
    kani::assume(k < 4);
    let c = match k {
        0 => 0.0,
        1 => 0.5,
        2 => -2.0,
        _ => 8.0,
    };
    let op: u8 = kani::any();
    kani::assume(op < 4);
    match op {
        0 => {
            let r = a.component_add(c);
            assert!(r[(i, j)] == da[i][j] + c);
        }
        1 => {
            let r = a.component_sub(c);
            assert!(r[(i, j)] == da[i][j] - c);
        }
        2 => {
            let r = a.component_mul(c);
            assert!(r[(i, j)] == da[i][j] * c);
        }
        _ => {
            let mut r = a;
            r.component_mul_mut(c);
            assert!(r[(i, j)] == da[i][j] * c);
        }
    }
    kani::cover!(true, "reached end");
}

fn isid(n: usize, ka: u8, ml: usize, mu: usize) {
    let (a, da) = build(ka, n, ml, mu);
    let mut dense_is_id = true;
    for i in 0..n {
        for j in 0..n {
            let want = if i == j { 1.0 } else { 0.0 };
            if da[i][j] != want {
                dense_is_id = false;
            }
        }
    }
    assert!(a.is_identity() == dense_is_id);
    kani::cover!(true, "reached end");
}

macro_rules! addsub_case {
    ($name:ident, $n:expr, $unw:expr, $ka:expr, $mla:expr, $mua:expr, $kb:expr, $mlb:expr, $mub:expr) => {
        #[kani::proof]
        #[kani::unwind($unw)]
        fn $name() {
            addsub($n, $ka, $mla, $mua, $kb, $mlb, $mub);
        }
    };
}
macro_rules! assign_case {
    ($name:ident, $n:expr, $unw:expr, $ka:expr, $mla:expr, $mua:expr, $kb:expr, $mlb:expr, $mub:expr) => {
        #[kani::proof]
        #[kani::unwind($unw)]
        fn $name() {
            assign($n, $ka, $mla, $mua, $kb, $mlb, $mub);
        }
    };
}
macro_rules! scalar_case {
    ($name:ident, $n:expr, $unw:expr, $ka:expr, $ml:expr, $mu:expr) => {
        #[kani::proof]
        #[kani::unwind($unw)]
        fn $name() {
            scalar($n, $ka, $ml, $mu);
        }
    };
}
macro_rules! isid_case {
    ($name:ident, $n:expr, $unw:expr, $ka:expr, $ml:expr, $mu:expr) => {
        #[kani::proof]
        #[kani::unwind($unw)]
        fn $name() {
            isid($n, $ka, $ml, $mu);
        }
    };
}

include!("c17_cases.rs");

// ---------------------------------------------------------------- macro constructors
#[kani::proof]
#[kani::unwind(6)]
fn c17_matrix_macro_forms() {
    let v: [f64; 4] = [any_small(), any_small(), any_small(), any_small()];
    let a = ivp::matrix![[v[0], v[1]], [v[2], v[3]]];
    let b = ivp::matrix![v[0], v[1]; v[2], v[3]];
    let (i, j) = pick(2);
    assert!(a[(i, j)] == v[2 * i + j]);
    assert!(b[(i, j)] == v[2 * i + j]);
    let c = ivp::banded_matrix!(0 => [v[0], v[1], v[2]], 1 => [v[3], v[0]], -1 => [v[1], v[2]]);
    assert!(c[(1, 0)] == v[3] && c[(2, 1)] == v[0] && c[(0, 1)] == v[1] && c[(1, 2)] == v[2] && c[(2, 0)] == 0.0);
    kani::cover!(true, "reached end");
}
