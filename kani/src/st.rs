//! Stepper harness infrastructure (C03, C04, C11, C18, C19).
//!
//! `Sh` is the state shared between the nondeterministic right-hand side and the recorder /
//! adversary SolOut. Each harness activates exactly ONE fact (`mode`), so CBMC slices the others
//! away. Facts are asserted at the moment they can be judged (inside `ode`, `jac` or the callback)
//! and paths are cut with `assume(false)` once the call budget is used up (DESIGN.md section 2).
use crate::common::*;
use ivp::dense::StepInterpolant;
use ivp::matrix::{Matrix, MatrixStorage};
use ivp::methods::{IntegrationResult, BDF, DOP853, DOPRI5, RADAU, RK23, RK4};
use ivp::prelude::*;
use ivp::solout::SolOut;
use std::cell::Cell;

// ---- facts (one per harness)
pub const F_NONE: u8 = 0;
pub const F_ODE_COUNT: u8 = 1; // evals.ode == number of ode calls made by the stepper
pub const F_JAC_COUNT: u8 = 2; // evals.jac == number of jac calls
pub const F_ACCEPTED: u8 = 3; // steps.accepted == callbacks - 1 ; steps.total >= accepted
pub const F_FIRST_CALL: u8 = 4; // first callback: xold == x == x0, y == y0, no interpolant
pub const F_CONTIG: u8 = 5; // xold == previous x ; (x-xold)*dir > 0 ; interpolant bounds == step
pub const F_INTERRUPT: u8 = 6; // Interrupt => UserInterrupt, no ode/jac/callback afterwards
pub const F_MODIFIED: u8 = 7; // ModifiedSolution => next ode call at (x, y_written)
pub const F_STATUS: u8 = 8; // Success => last callback x within 4ulp of xend ; UserInterrupt <=> Interrupt returned
pub const F_FINITE: u8 = 9; // Success => every y handed to a callback is finite (RHS may be non-finite)
pub const F_TIME_SPAN: u8 = 10; // every ode/jac time inside [x0,xend] +- 4ulp  (refuter)
pub const F_BUDGET: u8 = 11; // max_steps = m: callbacks <= m+1(+1) ; exhausted => NeedLargerNMax
pub const F_REJECT_SHRINKS: u8 = 12; // a trial that produced no callback is followed by a trial with |h'| <= 0.95|h| or return
pub const F_NO_PANIC: u8 = 13; // nothing but Kani's built-in panic/bounds checks
pub const F_MAX_STEP: u8 = 14; // every callback interval <= max_step (last may stretch 1%)  (refuter)
pub const F_FIRST_STEP: u8 = 15; // first trial's second stage at x0 + c2*h0*dir
pub const F_XOUT_AS_CONTINUE: u8 = 16;
pub const F_GUARD: u8 = 17; // a step far below the resolution of x ends the run with a non-success status at once

pub struct Sh {
    pub mode: u8,
    pub n: usize,
    pub x0: f64,
    pub xend: f64,
    pub dir: f64,
    pub slack: f64,
    pub y0: f64,
    pub budget: usize,   // ode-call budget: the (budget+1)-th call cuts the path
    pub finite_rhs: bool, // assume the RHS returns finite values
    pub nan_only: bool,   // (with finite_rhs == false) the RHS returns NaN or a moderate finite value: no overflow in the step's own arithmetic
    pub adversary: bool,  // callback returns nondeterministic flags
    pub ode_calls: Cell<usize>,
    pub jac_calls: Cell<usize>,
    pub cbs: Cell<usize>,
    pub last_x: Cell<f64>,
    pub dead: Cell<bool>,        // Interrupt has been returned
    pub interrupted: Cell<bool>, // same, for status facts
    pub armed: Cell<bool>,       // ModifiedSolution returned: next ode call must be at (exp_x, exp_y)
    pub exp_x: Cell<f64>,
    pub exp_y: Cell<f64>,
    pub nonfinite_seen: Cell<bool>,
    // F_REJECT_SHRINKS bookkeeping: time of the 2nd ode call of the current trial gives c2*h
    pub trial_first_t: Cell<f64>,
    pub trial_calls: Cell<usize>,
    pub cbs_at_trial: Cell<usize>,
    pub prev_h: Cell<f64>,
    pub stage_c2: f64,
    pub stages: usize,
    pub max_step: f64,
    pub h0: f64,
}

impl Sh {
    pub fn new(mode: u8, x0: f64, xend: f64, budget: usize) -> Self {
        let dir = if xend > x0 { 1.0 } else { -1.0 };
        Sh {
            mode,
            n: 1,
            x0,
            xend,
            dir,
            slack: 4.0 * f64::EPSILON * ulp_scale(x0, xend),
            y0: 0.5,
            budget,
            finite_rhs: true,
            nan_only: false,
            adversary: false,
            ode_calls: Cell::new(0),
            jac_calls: Cell::new(0),
            cbs: Cell::new(0),
            last_x: Cell::new(x0),
            dead: Cell::new(false),
            interrupted: Cell::new(false),
            armed: Cell::new(false),
            exp_x: Cell::new(0.0),
            exp_y: Cell::new(0.0),
            nonfinite_seen: Cell::new(false),
            trial_first_t: Cell::new(0.0),
            trial_calls: Cell::new(0),
            cbs_at_trial: Cell::new(0),
            prev_h: Cell::new(0.0),
            stage_c2: 0.0,
            stages: 0,
            max_step: f64::INFINITY,
            h0: 0.0,
        }
    }

    fn in_span(&self, t: f64) -> bool {
        let lo = if self.dir > 0.0 { self.x0 } else { self.xend };
        let hi = if self.dir > 0.0 { self.xend } else { self.x0 };
        t >= lo - self.slack && t <= hi + self.slack
    }
}

/// Single vacuity witness shared by all judging sites: reachable only through the arm of the
/// active fact, so "SATISFIED" means the harness's own fact was judged on some path.
#[inline(never)]
pub fn judged() {
    kani::cover!(true, "the fact of this harness is judged on some path");
}

pub struct Nd<'a>(pub &'a Sh);

impl<'a> IVP for Nd<'a> {
    fn ode(&self, x: f64, y: &[f64], d: &mut [f64]) {
        let s = self.0;
        let c = s.ode_calls.get();
        if c >= s.budget {
            kani::assume(false);
        }
        s.ode_calls.set(c + 1);
        match s.mode {
            F_INTERRUPT => assert!(!s.dead.get(), "ode call after Interrupt"),
            F_MODIFIED => {
                if s.armed.get() {
                    assert!(x.to_bits() == s.exp_x.get().to_bits(), "derivative re-evaluated at the callback's x");
                    assert!(y[0].to_bits() == s.exp_y.get().to_bits(), "derivative re-evaluated at the written state");
                    s.armed.set(false);
                }
            }
            F_TIME_SPAN => assert!(s.in_span(x), "ode time inside the span (+-4ulp)"),
            F_REJECT_SHRINKS => {
                if c == 1 {
                    // stage 2 of the first trial: x0 + c2*h1
                    s.trial_first_t.set(x - s.x0);
                }
                if c == s.stages + 1 {
                    // first stage evaluation of the second trial
                    if s.cbs.get() == 1 {
                        // the first trial was rejected (no callback since the initial one): the step must have shrunk.
                        // NaN/inf error norms included: a NaN step size fails every comparison below.
                        let t1 = s.trial_first_t.get();
                        let t2 = x - s.x0;
                        assert!(t2.abs() <= 0.95 * t1.abs() * (1.0 + 8.0 * f64::EPSILON), "a rejected trial shrinks the step (also with a non-finite error norm)");
                        assert!(t2 * s.dir > 0.0, "the retried step still points toward xend");
                        judged();
                    }
                    kani::assume(false);
                }
            }
            F_FIRST_STEP => {
                if c == 1 {
                    // second ode call of the run = stage 2 of the first trial
                    assert!(x.to_bits() == (s.x0 + s.stage_c2 * (s.h0 * s.dir)).to_bits(), "first trial uses first_step");
                    judged();
                    kani::assume(false);
                }
            }
            _ => {}
        }
        for i in 0..d.len() {
            let v: f64 = kani::any();
            if s.finite_rhs {
                kani::assume(v.is_finite() && v.abs() <= 1e6);
            } else if s.nan_only {
                // only the states handed to callbacks are judged (a rejected NaN trial is legitimate)
                kani::assume(v.is_nan() || (v.is_finite() && v.abs() <= 1e6));
            } else if !v.is_finite() {
                s.nonfinite_seen.set(true);
            }
            d[i] = v;
        }
    }

    fn jac(&self, x: f64, _y: &[f64], j: &mut Matrix) {
        let s = self.0;
        s.jac_calls.set(s.jac_calls.get() + 1);
        match s.mode {
            F_INTERRUPT => assert!(!s.dead.get(), "jac call after Interrupt"),
            F_TIME_SPAN => assert!(s.in_span(x), "jac time inside the span (+-4ulp)"),
            _ => {}
        }
        let n = j.nrows();
        for r in 0..n {
            for c in 0..n {
                let v: f64 = kani::any();
                kani::assume(v.is_finite() && v.abs() <= 1e6);
                j[(r, c)] = v;
            }
        }
    }
}

pub struct Rec<'a>(pub &'a Sh);

impl<'a> SolOut for Rec<'a> {
    fn solout(&mut self, xold: f64, x: &mut f64, y: &mut [f64], it: Option<&StepInterpolant<'_>>) -> ControlFlag {
        let s = self.0;
        let k = s.cbs.get();
        match s.mode {
            F_INTERRUPT => assert!(!s.dead.get(), "callback after Interrupt"),
            F_FIRST_CALL => {
                if k == 0 {
                    assert!(xold.to_bits() == s.x0.to_bits() && (*x).to_bits() == s.x0.to_bits(), "first callback at x0");
                    assert!(y[0].to_bits() == s.y0.to_bits(), "first callback carries y0");
                    assert!(it.is_none(), "no interpolant on the initial callback");
                    judged();
                    kani::assume(false);
                }
            }
            F_CONTIG => {
                if k > 0 {
                    // "each xold is the previous x, to rounding" (BDF passes x - h)
                    let lx = s.last_x.get();
                    assert!((xold - lx).abs() <= s.slack, "xold is the previous x");
                    assert!((*x - xold) * s.dir > 0.0, "callback times move strictly toward xend");
                    if let Some(i) = it {
                        let (a, b) = i.bounds();
                        let lo = if xold < *x { xold } else { *x };
                        let hi = if xold < *x { *x } else { xold };
                        assert!((a - lo).abs() <= s.slack && (b - hi).abs() <= s.slack, "interpolant bounds are the step");
                    }
                    judged();
                }
            }
            F_GUARD => {
                // judged here as well as at return: paths cut by the call budget never return
                if k > 0 {
                    assert!((*x).to_bits() != xold.to_bits(), "no step is accepted below the resolution of x (x did not move)");
                    judged();
                }
            }
            F_FINITE => {
                // judged at return (needs the status); remember what was handed out
                if !y[0].is_finite() {
                    s.nonfinite_seen.set(true);
                }
            }
            F_MAX_STEP => {
                if k > 0 {
                    let len = (*x - xold).abs();
                    let lands = (*x - s.xend).abs() <= s.slack;
                    let lim = if lands { 1.01 * s.max_step * (1.0 + 4.0 * f64::EPSILON) } else { s.max_step };
                    assert!(len <= lim, "accepted step no longer than max_step");
                    judged();
                }
            }
            _ => {}
        }
        s.cbs.set(k + 1);
        s.last_x.set(*x);
        if !s.adversary {
            return ControlFlag::Continue;
        }
        let c: u8 = kani::any();
        match c {
            0 => {
                s.dead.set(true);
                s.interrupted.set(true);
                ControlFlag::Interrupt
            }
            1 => {
                let v: f64 = kani::any();
                kani::assume(v.is_finite() && v.abs() <= 1e6);
                y[0] = v;
                s.armed.set(true);
                s.exp_x.set(*x);
                s.exp_y.set(v);
                ControlFlag::ModifiedSolution
            }
            2 => {
                let xo: f64 = kani::any();
                ControlFlag::XOut(xo)
            }
            _ => ControlFlag::Continue,
        }
    }
}

pub const M_RK4: u8 = 0;
pub const M_RK23: u8 = 1;
pub const M_DOPRI5: u8 = 2;
pub const M_DOP853: u8 = 3;
pub const M_RADAU: u8 = 4;
pub const M_BDF: u8 = 5;

pub fn c2_of(m: u8) -> f64 {
    match m {
        M_RK4 => 0.5,
        M_RK23 => 0.5,
        M_DOPRI5 => 0.2,
        _ => 0.526001519587677318785587544488e-01,
    }
}

pub struct Cfg {
    pub first_step: Option<f64>,
    pub max_step: Option<f64>,
    pub max_steps: usize,
    pub rtol: f64,
    pub atol: f64,
}

pub fn solve(m: u8, sh: &Sh, cfg: &Cfg) -> Result<IntegrationResult, ivp::error::Error> {
    let f = Nd(sh);
    let mut so = Rec(sh);
    let y0 = [sh.y0];
    match m {
        M_RK4 => {
            let h = cfg.first_step.unwrap_or((sh.xend - sh.x0) / 100.0);
            RK4::builder().max_steps(cfg.max_steps).build().solve(&f, sh.x0, &y0, sh.xend, h, Some(&mut so))
        }
        M_RK23 => RK23::builder()
            .maybe_first_step(cfg.first_step)
            .maybe_max_step(cfg.max_step)
            .max_steps(cfg.max_steps)
            .build()
            .solve(&f, sh.x0, &y0, sh.xend, cfg.rtol.into(), cfg.atol.into(), Some(&mut so)),
        M_DOPRI5 => DOPRI5::builder()
            .maybe_first_step(cfg.first_step)
            .maybe_max_step(cfg.max_step)
            .max_steps(cfg.max_steps)
            .build()
            .solve(&f, sh.x0, &y0, sh.xend, cfg.rtol.into(), cfg.atol.into(), Some(&mut so)),
        M_DOP853 => DOP853::builder()
            .maybe_first_step(cfg.first_step)
            .maybe_max_step(cfg.max_step)
            .max_steps(cfg.max_steps)
            .build()
            .solve(&f, sh.x0, &y0, sh.xend, cfg.rtol.into(), cfg.atol.into(), Some(&mut so)),
        M_RADAU => RADAU::builder()
            .maybe_first_step(cfg.first_step)
            .maybe_max_step(cfg.max_step)
            .max_steps(cfg.max_steps)
            .newton_maxiter(1)
            .mass_storage(MatrixStorage::Identity)
            .build()
            .solve(&f, sh.x0, &y0, sh.xend, cfg.rtol.into(), cfg.atol.into(), Some(&mut so)),
        _ => BDF::builder()
            .maybe_first_step(cfg.first_step)
            .maybe_max_step(cfg.max_step)
            .max_steps(cfg.max_steps)
            .newton_maxiter(1)
            .build()
            .solve(&f, sh.x0, &y0, sh.xend, cfg.rtol.into(), cfg.atol.into(), Some(&mut so)),
    }
}

/// Facts judged when `solve` returns (paths that return within the call budget).
pub fn judge_at_return(m: u8, sh: &Sh, cfg: &Cfg, r: &Result<IntegrationResult, ivp::error::Error>) {
    let res = match r {
        Ok(v) => v,
        Err(_) => {
            // configuration errors are not in the harness domains
            assert!(sh.mode == F_NO_PANIC, "unexpected Err from solve");
            return;
        }
    };
    match sh.mode {
        F_ODE_COUNT => {
            assert!(res.evals.ode == sh.ode_calls.get(), "nfev equals the right-hand-side evaluations made");
        }
        F_JAC_COUNT => {
            assert!(res.evals.jac == sh.jac_calls.get(), "njev equals the Jacobian evaluations made");
        }
        F_ACCEPTED => {
            assert!(res.steps.accepted + 1 == sh.cbs.get(), "naccpt equals the reported intervals");
            assert!(res.steps.total >= res.steps.accepted, "nstep >= naccpt");
        }
        F_STATUS => {
            if res.status == Status::Success {
                assert!((sh.last_x.get() - sh.xend).abs() <= sh.slack, "Success => last callback at xend");
            }
            assert!((res.status == Status::UserInterrupt) == sh.interrupted.get(), "UserInterrupt <=> callback returned Interrupt");
            if (sh.last_x.get() - sh.xend) * sh.dir >= 0.0 && !sh.interrupted.get() && sh.cbs.get() > 1 {
                assert!(res.status == Status::Success, "covered the interval => Success");
            }
        }
        F_FINITE => {
            if res.status == Status::Success {
                assert!(!sh.nonfinite_seen.get(), "Success => finite states");
            }
        }
        F_INTERRUPT => {
            if sh.interrupted.get() {
                assert!(res.status == Status::UserInterrupt, "Interrupt => UserInterrupt");
            }
        }
        F_GUARD => {
            assert!(res.status != Status::Success, "a step below the resolution of x cannot succeed");
            assert!(sh.cbs.get() <= 1, "no step is accepted below the resolution of x");
            judged();
        }
        F_BUDGET => {
            // a solver may or may not count the trial in flight: m+2 callbacks incl. the initial one at most
            assert!(sh.cbs.get() <= cfg.max_steps + 2, "callbacks bounded by the step budget");
            assert!(res.steps.total <= cfg.max_steps + 1, "nstep <= max_steps + 1");
            if res.status == Status::Success {
                assert!((sh.last_x.get() - sh.xend).abs() <= sh.slack, "Success only at xend");
            }
        }
        _ => {}
    }
    kani::cover!(res.status == Status::Success, "info: a Success return is reachable");
    match sh.mode {
        F_ODE_COUNT | F_JAC_COUNT | F_ACCEPTED | F_STATUS | F_FINITE | F_BUDGET | F_NO_PANIC => {
            judged();
        }
        F_INTERRUPT => {
            if sh.interrupted.get() {
                judged();
            }
        }
        _ => {}
    }
}
