//! C20 (sparsity clause only) — greedy column grouping never puts two columns sharing a row in
//! one group. Column lists have FIXED lengths per harness (symbolic lengths run CBMC out of memory).
use ivp::python::sparsity::verif_group_columns;

fn shares(a: &[usize], b: &[usize]) -> bool {
    let mut s = false;
    for x in a {
        for y in b {
            if x == y {
                s = true;
            }
        }
    }
    s
}

macro_rules! grouping {
    ($name:ident, $n:expr, $len:expr, $unw:expr) => {
        #[kani::proof]
        #[kani::unwind($unw)]
        fn $name() {
            const N: usize = $n;
            const L: usize = $len;
            let r: [[usize; L]; N] = kani::any();
            for c in 0..N {
                for k in 0..L {
                    kani::assume(r[c][k] < N);
                }
            }
            let mut c2r: Vec<Vec<usize>> = Vec::with_capacity(N);
            for c in 0..N {
                c2r.push(r[c].to_vec());
            }
            let (g, ng) = verif_group_columns(&c2r, N);
            let a: usize = kani::any();
            let b: usize = kani::any();
            kani::assume(a < N && b < N && a != b);
            assert!(g[a] < ng && g[b] < ng, "every column gets a group");
            if g[a] == g[b] {
                assert!(!shares(&r[a], &r[b]), "two columns sharing a row are never in one group");
            }
            assert!(ng <= N && ng >= 1, "groups are numbered densely");
            kani::cover!(g[a] == g[b], "two columns can share a group");
            std::mem::forget(c2r);
            std::mem::forget(g);
        }
    };
}
grouping!(c20_grouping_n3_len1, 3, 1, 6);
grouping!(c20_grouping_n3_len2, 3, 2, 6);
grouping!(c20_grouping_n4_len2, 4, 2, 7);
grouping!(c20_grouping_n4_len3, 4, 3, 7);
