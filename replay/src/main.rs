//! Native replay programs for engine R: they run the REAL solvers (release or dev build of
//! /repo, no hooks, no stubs) on concrete inputs derived from a solver counterexample and print
//! what happened as JSON, so that /verif/rsym/replay.py can confirm or refute a violation.
use ivp::dense::StepInterpolant;
use ivp::methods::{IntegrationResult, BDF, DOP853, DOPRI5, RADAU, RK23, RK4};
use ivp::prelude::*;
use ivp::solout::SolOut;
use ivp::verif_hooks::SolOutProbe;
use std::cell::{Cell, RefCell};

thread_local! { static NCALLS: Cell<usize> = Cell::new(0); }

#[derive(Clone, Copy, PartialEq)]
enum Rhs {
    /// returns 1.0 on the j-th call (1-based), 0.0 otherwise
    Impulse(usize),
    /// y' = cos(t) + 0.5*y   (smooth, non-autonomous: for FSAL / dense checks)
    Smooth,
    /// scripted accept/reject: trial pattern decides whether stage values agree ('A') or are wild ('R')
    Script,
    /// y' = -2000 (y - cos t): drives the explicit methods into their stiffness detection
    Stiff,
    /// smooth problem whose j-th evaluation (1-based) returns NaN (0 = never): drives Newton failures
    NanAt(usize),
    /// smooth problem that returns NaN from the j-th evaluation on
    NanFrom(usize),
    /// y' = -1e-6 y : so slow that the automatic initial step wants far more than any reasonable max_step
    Slow,
}

struct F {
    rhs: Rhs,
    calls: RefCell<Vec<(f64, f64)>>,
    script: Vec<u8>,       // per trial: b'A' | b'R' | b'N' (NaN) | b'I' (inf)
    stages: usize,         // evaluations per trial (for the script)
    pre: usize,            // evaluations before the first trial
    extra_after_accept: usize,
    trial: Cell<usize>,
    in_trial: Cell<usize>,
    jac_calls: Cell<usize>,
}

impl F {
    fn new(rhs: Rhs) -> Self {
        F { rhs, calls: RefCell::new(vec![]), script: vec![], stages: 0, pre: 1, extra_after_accept: 0,
            trial: Cell::new(0), in_trial: Cell::new(0), jac_calls: Cell::new(0) }
    }
}

impl IVP for F {
    fn ode(&self, x: f64, y: &[f64], d: &mut [f64]) {
        let n = { let mut c = self.calls.borrow_mut(); c.push((x, y[0])); c.len() };
        NCALLS.with(|c| c.set(n));
        if n > 5000000 { println!("{{\"ok\":false,\"hang\":true,\"calls\":{}}}", n); std::process::exit(0); }
        match self.rhs {
            Rhs::Impulse(j) => d[0] = if n == j { 1.0 } else { 0.0 },
            Rhs::Smooth => d[0] = x.cos() + 0.5 * y[0],
            Rhs::Stiff => d[0] = -2000.0 * (y[0] - x.cos()),
            Rhs::NanAt(j) => d[0] = if n == j { f64::NAN } else { x.cos() + 0.5 * y[0] },
            Rhs::NanFrom(j) => d[0] = if n >= j { f64::NAN } else { x.cos() + 0.5 * y[0] },
            Rhs::Slow => d[0] = -1.0e-6 * y[0],
            Rhs::Script => {
                // call-indexed: the value depends only on the position inside the current trial
                if n <= self.pre { d[0] = std::env::var("SCRIPT_PRE").ok().and_then(|v| v.parse().ok()).unwrap_or(1.0); return; }
                let k = self.in_trial.get();
                let t = self.trial.get();
                let mode = if t < self.script.len() { self.script[t] } else { b'A' };
                d[0] = match mode {
                    b'A' => 1.0,
                    b'R' => if k % 2 == 0 { 1.0e6 } else { -1.0e6 },
                    b'N' => f64::NAN,
                    b'I' => f64::INFINITY,
                    _ => 1.0,
                };
                let k2 = k + 1;
                if k2 >= self.stages { self.in_trial.set(0); self.trial.set(t + 1); } else { self.in_trial.set(k2); }
            }
        }
        for i in 1..d.len() { d[i] = 0.0; }
    }
    fn jac(&self, _x: f64, _y: &[f64], j: &mut Matrix) {
        self.jac_calls.set(self.jac_calls.get() + 1);
        let n = j.nrows();
        for r in 0..n { for c in 0..n { j[(r, c)] = if r == c { 0.5 } else { 0.0 }; } }
    }
}

struct Rec {
    cbs: Vec<(f64, f64, f64)>,             // xold, x, y
    dense: Vec<Vec<f64>>,                  // per step: interpolant at thetas
    bounds: Vec<(f64, f64)>,
    thetas: Vec<f64>,
    stop_after: usize,                     // interrupt when this many callbacks were seen (0 = never)
    flags: Vec<u8>,                        // per callback: b'C' b'I' b'M' b'X'
    modified_to: f64,
    xout_at: f64,
    calls_at_cb: Vec<usize>,
    had_interp: Vec<bool>,
}

impl SolOut for Rec {
    fn solout(&mut self, xold: f64, x: &mut f64, y: &mut [f64], it: Option<&StepInterpolant<'_>>) -> ControlFlag {
        let k = self.cbs.len();
        self.cbs.push((xold, *x, y[0]));
        self.calls_at_cb.push(NCALLS.with(|c| c.get()));
        self.had_interp.push(it.is_some());
        if let Some(i) = it {
            let mut v = vec![];
            let mut yi = vec![0.0; y.len()];
            for th in &self.thetas {
                i.interpolate(xold + th * (*x - xold), &mut yi);
                v.push(yi[0]);
            }
            self.dense.push(v);
            self.bounds.push(i.bounds());
        }
        if self.stop_after > 0 && self.cbs.len() >= self.stop_after { return ControlFlag::Interrupt; }
        match self.flags.get(k).copied().unwrap_or(b'C') {
            b'I' => ControlFlag::Interrupt,
            b'M' => { y[0] = self.modified_to; ControlFlag::ModifiedSolution }
            b'X' => ControlFlag::XOut(self.xout_at),
            _ => ControlFlag::Continue,
        }
    }
}

struct Run { method: String, x0: f64, xend: f64, y0: f64, h0: Option<f64>, max_step: Option<f64>, max_steps: usize, rtol: f64, atol: f64, dense: bool }

fn solve(r: &Run, f: &F, so: &mut Rec) -> Result<IntegrationResult, ivp::error::Error> {
    let y0 = [r.y0];
    match r.method.as_str() {
        "RK4" => RK4::builder().dense_output(r.dense).max_steps(r.max_steps).build().solve(f, r.x0, &y0, r.xend, r.h0.unwrap_or((r.xend - r.x0) / 100.0), Some(so)),
        "RK23" => RK23::builder().dense_output(r.dense).maybe_first_step(r.h0).maybe_max_step(r.max_step).max_steps(r.max_steps).build().solve(f, r.x0, &y0, r.xend, r.rtol.into(), r.atol.into(), Some(so)),
        "DOPRI5" => DOPRI5::builder().dense_output(r.dense).maybe_first_step(r.h0).maybe_max_step(r.max_step).max_steps(r.max_steps).build().solve(f, r.x0, &y0, r.xend, r.rtol.into(), r.atol.into(), Some(so)),
        "DOP853" => DOP853::builder().dense_output(r.dense).maybe_first_step(r.h0).maybe_max_step(r.max_step).max_steps(r.max_steps).build().solve(f, r.x0, &y0, r.xend, r.rtol.into(), r.atol.into(), Some(so)),
        "RADAU" => RADAU::builder().dense_output(r.dense).maybe_first_step(r.h0).maybe_max_step(r.max_step).max_steps(r.max_steps).build().solve(f, r.x0, &y0, r.xend, r.rtol.into(), r.atol.into(), Some(so)),
        _ => BDF::builder().maybe_first_step(r.h0).maybe_max_step(r.max_step).max_steps(r.max_steps).build().solve(f, r.x0, &y0, r.xend, r.rtol.into(), r.atol.into(), Some(so)),
    }
}

/// Right-hand side returning a given list of vectors, one per call (the last one repeats): replays a solver model of
/// one trial step (stage values) on the real method.
struct Given { vals: Vec<Vec<f64>>, calls: RefCell<Vec<(f64, Vec<f64>)>> }
impl IVP for Given {
    fn ode(&self, x: f64, y: &[f64], d: &mut [f64]) {
        let k = { let mut c = self.calls.borrow_mut(); c.push((x, y.to_vec())); c.len() - 1 };
        let v = &self.vals[k.min(self.vals.len() - 1)];
        for i in 0..d.len() { d[i] = v[i]; }
    }
}
struct RecN { cbs: Vec<(f64, f64, Vec<f64>)>, calls_at: Vec<usize>, stop_at: usize }
impl SolOut for RecN {
    fn solout(&mut self, xold: f64, x: &mut f64, y: &mut [f64], _it: Option<&StepInterpolant<'_>>) -> ControlFlag {
        self.cbs.push((xold, *x, y.to_vec()));
        if self.cbs.len() >= self.stop_at { ControlFlag::Interrupt } else { ControlFlag::Continue }
    }
}

/// M y' = A y with a non-symmetric M (use_mass) against y' = M^-1 A y (identity mass): Radau must agree within tolerance.
struct MassLin { use_mass: bool }
const ML_M: [[f64; 2]; 2] = [[2.0, 1.0], [0.0, 1.0]];
const ML_A: [[f64; 2]; 2] = [[-1.0, 0.5], [0.25, -2.0]];
impl IVP for MassLin {
    fn ode(&self, _x: f64, y: &[f64], d: &mut [f64]) {
        let f = [ML_A[0][0] * y[0] + ML_A[0][1] * y[1], ML_A[1][0] * y[0] + ML_A[1][1] * y[1]];
        if self.use_mass { d[0] = f[0]; d[1] = f[1]; } else {
            // M^-1 for [[2,1],[0,1]] = [[1/2,-1/2],[0,1]]
            d[0] = 0.5 * f[0] - 0.5 * f[1];
            d[1] = f[1];
        }
    }
    fn mass(&self, m: &mut Matrix) {
        if self.use_mass { for r in 0..2 { for c in 0..2 { m[(r, c)] = ML_M[r][c]; } } } else { for r in 0..2 { m[(r, r)] = 1.0; } }
    }
}

/// Van der Pol (mu = 1000) with analytic Jacobian: stiff and strongly nonlinear, drives Radau/BDF Newton iterations into their failure branches.
struct Vdp { mu: f64, odes: Cell<usize>, jacs: Cell<usize> }
impl IVP for Vdp {
    fn ode(&self, _x: f64, y: &[f64], d: &mut [f64]) { self.odes.set(self.odes.get() + 1); d[0] = y[1]; d[1] = self.mu * (1.0 - y[0] * y[0]) * y[1] - y[0]; }
    fn jac(&self, _x: f64, y: &[f64], j: &mut Matrix) {
        self.jacs.set(self.jacs.get() + 1);
        j[(0, 0)] = 0.0; j[(0, 1)] = 1.0;
        j[(1, 0)] = -2.0 * self.mu * y[0] * y[1] - 1.0; j[(1, 1)] = self.mu * (1.0 - y[0] * y[0]);
    }
}
struct RecB { rows: Vec<(f64, f64, f64, f64, f64, f64)> }
impl SolOut for RecB {
    fn solout(&mut self, xold: f64, x: &mut f64, y: &mut [f64], it: Option<&StepInterpolant<'_>>) -> ControlFlag {
        if let Some(i) = it {
            let b = i.bounds();
            let mut yi = vec![0.0; y.len()];
            i.interpolate(*x, &mut yi);
            self.rows.push((xold, *x, b.0, b.1, y[0], yi[0]));
        }
        ControlFlag::Continue
    }
}

/// n identical copies of y' = -2y + sin t
struct Dup(usize);
impl IVP for Dup { fn ode(&self, x: f64, y: &[f64], d: &mut [f64]) { for i in 0..self.0 { d[i] = -2.0 * y[i] + x.sin(); } } }

/// Event functions for the handler replay: concrete end-point values per callback, exact zero at
/// every interior (Brent) probe.
struct Ev { configs: Vec<(Direction, Option<usize>)>, vals: Vec<Vec<f64>>, call: Cell<usize>, probes: Cell<usize> }
impl IVP for Ev {
    fn ode(&self, _x: f64, _y: &[f64], d: &mut [f64]) { d[0] = 0.0; }
    fn n_events(&self) -> usize { self.configs.len() }
    fn event_config(&self, i: usize) -> EventConfig {
        let mut c = EventConfig::new();
        c.direction(self.configs[i].0);
        if let Some(n) = self.configs[i].1 { c.terminal_count(n); }
        c
    }
    fn events(&self, _x: f64, _y: &[f64], out: &mut [f64]) {
        let p = self.probes.get();
        self.probes.set(p + 1);
        for i in 0..out.len() {
            out[i] = if p == 0 { self.vals[self.call.get()][i] } else { 0.0 };
        }
    }
}
fn interp_id(xi: f64, yi: &mut [f64], _c: &[f64], _xold: f64, _h: f64) { for v in yi.iter_mut() { *v = xi; } }

fn js(v: f64) -> String { if v.is_finite() { format!("{:e}", v) } else { format!("\"{}\"", v) } }
fn jl(v: &[f64]) -> String { format!("[{}]", v.iter().map(|x| js(*x)).collect::<Vec<_>>().join(",")) }

fn main() {
    let a: Vec<String> = std::env::args().collect();
    let cmd = a.get(1).map(|s| s.as_str()).unwrap_or("");
    let thetas = vec![0.0, 0.125, 0.25, 0.5, 0.75, 0.875, 1.0];
    match cmd {
        // probe tableau METHOD H
        "tableau" => {
            let method = a[2].clone();
            let h: f64 = a[3].parse().unwrap();
            let base = Run { method: method.clone(), x0: 0.0, xend: 1.0e9 * h.signum(), y0: 0.0, h0: Some(h), max_step: None, max_steps: 10, rtol: 0.0, atol: 1.0e300, dense: true };
            // number of calls up to and including the first accepted step
            let f = F::new(Rhs::Impulse(0));
            let mut so = Rec { cbs: vec![], dense: vec![], bounds: vec![], thetas: thetas.clone(), stop_after: 2, flags: vec![], modified_to: 0.0, xout_at: 0.0, calls_at_cb: vec![], had_interp: vec![] };
            let _ = solve(&base, &f, &mut so);
            let s = f.calls.borrow().len();
            let mut out = vec![];
            for j in 1..=s {
                let f = F::new(Rhs::Impulse(j));
                let mut so = Rec { cbs: vec![], dense: vec![], bounds: vec![], thetas: thetas.clone(), stop_after: 2, flags: vec![], modified_to: 0.0, xout_at: 0.0, calls_at_cb: vec![], had_interp: vec![] };
                let _ = solve(&base, &f, &mut so);
                let calls = f.calls.borrow();
                let ts: Vec<f64> = calls.iter().map(|c| c.0).collect();
                let ys: Vec<f64> = calls.iter().map(|c| c.1).collect();
                let ynew = so.cbs.get(1).map(|c| c.2).unwrap_or(f64::NAN);
                let dense = so.dense.get(0).cloned().unwrap_or_default();
                out.push(format!("{{\"j\":{},\"t\":{},\"y\":{},\"y_new\":{},\"dense\":{}}}", j, jl(&ts), jl(&ys), js(ynew), jl(&dense)));
            }
            println!("{{\"method\":\"{}\",\"h\":{},\"calls\":{},\"thetas\":{},\"impulse\":[{}]}}", method, js(h), s, jl(&thetas), out.join(","));
        }
        // probe fsal METHOD H  : two accepted steps on a smooth problem; reports every call and callback
        "fsal" => {
            let method = a[2].clone();
            let h: f64 = a[3].parse().unwrap();
            let dense = a.get(4).map(|s| s != "nodense").unwrap_or(true);
            let base = Run { method: method.clone(), x0: 0.25, xend: 0.25 + 1.0e3 * h.signum(), y0: 0.75, h0: Some(h), max_step: Some(h.abs()), max_steps: 10, rtol: 0.0, atol: 1.0e300, dense };
            let f = F::new(Rhs::Smooth);
            let mut so = Rec { cbs: vec![], dense: vec![], bounds: vec![], thetas: thetas.clone(), stop_after: 3, flags: vec![], modified_to: 0.0, xout_at: 0.0, calls_at_cb: vec![], had_interp: vec![] };
            let _ = solve(&base, &f, &mut so);
            let calls = f.calls.borrow();
            let ts: Vec<f64> = calls.iter().map(|c| c.0).collect();
            let ys: Vec<f64> = calls.iter().map(|c| c.1).collect();
            let cb: Vec<String> = so.cbs.iter().map(|c| format!("[{},{},{}]", js(c.0), js(c.1), js(c.2))).collect();
            let dn: Vec<String> = so.dense.iter().map(|d| jl(d)).collect();
            println!("{{\"method\":\"{}\",\"t\":{},\"y\":{},\"callbacks\":[{}],\"dense\":[{}],\"thetas\":{}}}", method, jl(&ts), jl(&ys), cb.join(","), dn.join(","), jl(&thetas));
        }
        // probe script METHOD x0 xend h0|none max_step|none max_steps PATTERN FLAGS stages pre
        "script" => {
            let p = |s: &String| -> Option<f64> { if s == "none" { None } else { Some(s.parse().unwrap()) } };
            let run = Run { method: a[2].clone(), x0: a[3].parse().unwrap(), xend: a[4].parse().unwrap(), y0: 0.5, h0: p(&a[5]), max_step: p(&a[6]), max_steps: a[7].parse().unwrap(), rtol: 1e-3, atol: 1e-6, dense: true };
            let mut f = F::new(Rhs::Script);
            f.script = a[8].as_bytes().to_vec();
            f.stages = a[10].parse().unwrap();
            f.pre = a[11].parse().unwrap();
            let mut so = Rec { cbs: vec![], dense: vec![], bounds: vec![], thetas: vec![0.0, 1.0], stop_after: 0, flags: a[9].as_bytes().to_vec(), modified_to: 0.25, xout_at: 0.0, calls_at_cb: vec![], had_interp: vec![] };
            let budget: usize = 200000;
            let _ = budget;
            let r = solve(&run, &f, &mut so);
            let calls = f.calls.borrow();
            let ts: Vec<f64> = calls.iter().map(|c| c.0).collect();
            let ys: Vec<f64> = calls.iter().map(|c| c.1).collect();
            let cb: Vec<String> = so.cbs.iter().map(|c| format!("[{},{},{}]", js(c.0), js(c.1), js(c.2))).collect();
            let bd: Vec<String> = so.bounds.iter().map(|c| format!("[{},{}]", js(c.0), js(c.1))).collect();
            match r {
                Ok(res) => println!("{{\"ok\":true,\"status\":\"{:?}\",\"nfev\":{},\"njev\":{},\"nstep\":{},\"naccpt\":{},\"nrejct\":{},\"h\":{},\"ode_calls\":{},\"jac_calls\":{},\"t\":{},\"y\":{},\"callbacks\":[{}],\"bounds\":[{}],\"calls_at_cb\":{:?},\"had_interp\":{:?}}}",
                    res.status, res.evals.ode, res.evals.jac, res.steps.total, res.steps.accepted, res.steps.rejected, js(res.h), calls.len(), f.jac_calls.get(), jl(&ts), jl(&ys), cb.join(","), bd.join(","), so.calls_at_cb, so.had_interp),
                Err(e) => println!("{{\"ok\":false,\"error\":\"{:?}\"}}", e),
            }
        }
        // probe bdf x0 xend h0|none max_step|none max_steps FLAGS newton_maxiter rtol nan_at
        //   the REAL BDF on y' = cos t + y/2 (analytic Jacobian 1/2), scripted callback flags
        "bdf" => {
            let p = |s: &String| -> Option<f64> { if s == "none" { None } else { Some(s.parse().unwrap()) } };
            let (x0, xend): (f64, f64) = (a[2].parse().unwrap(), a[3].parse().unwrap());
            let f = F::new(Rhs::NanAt(a[10].parse().unwrap()));
            let mut so = Rec { cbs: vec![], dense: vec![], bounds: vec![], thetas: vec![0.0, 1.0], stop_after: 0, flags: a[7].as_bytes().to_vec(), modified_to: 0.25, xout_at: 0.0, calls_at_cb: vec![], had_interp: vec![] };
            let rtol: f64 = a[9].parse().unwrap();
            let r = BDF::builder().maybe_first_step(p(&a[4])).maybe_max_step(p(&a[5])).max_steps(a[6].parse().unwrap()).newton_maxiter(a[8].parse().unwrap()).build()
                .solve(&f, x0, &[0.5], xend, rtol.into(), (rtol * 1e-3).into(), Some(&mut so));
            let calls = f.calls.borrow();
            let ts: Vec<f64> = calls.iter().map(|c| c.0).collect();
            let ys: Vec<f64> = calls.iter().map(|c| c.1).collect();
            let cb: Vec<String> = so.cbs.iter().map(|c| format!("[{},{},{}]", js(c.0), js(c.1), js(c.2))).collect();
            let bd: Vec<String> = so.bounds.iter().map(|c| format!("[{},{}]", js(c.0), js(c.1))).collect();
            match r {
                Ok(res) => println!("{{\"ok\":true,\"status\":\"{:?}\",\"nfev\":{},\"njev\":{},\"nstep\":{},\"naccpt\":{},\"nrejct\":{},\"h\":{},\"ode_calls\":{},\"jac_calls\":{},\"t\":{},\"y\":{},\"callbacks\":[{}],\"bounds\":[{}],\"calls_at_cb\":{:?},\"had_interp\":{:?}}}",
                    res.status, res.evals.ode, res.evals.jac, res.steps.total, res.steps.accepted, res.steps.rejected, js(res.h), calls.len(), f.jac_calls.get(), jl(&ts), jl(&ys), cb.join(","), bd.join(","), so.calls_at_cb, so.had_interp),
                Err(e) => println!("{{\"ok\":false,\"error\":\"{:?}\"}}", e),
            }
        }
        // probe accept METHOD x0 h Y0 RTOL ATOL K   with Y0/RTOL/ATOL "a;b" and K "k1a;k1b,k2a;k2b,..": first trial step with the given stage values
        "accept" => {
            let vecp = |s: &String| -> Vec<f64> { s.split(';').map(|v| v.parse().unwrap()).collect() };
            let method = a[2].clone();
            let (x0, h): (f64, f64) = (a[3].parse().unwrap(), a[4].parse().unwrap());
            let y0 = vecp(&a[5]);
            let (rt, at) = (vecp(&a[6]), vecp(&a[7]));
            let ks: Vec<Vec<f64>> = a[8].split(',').map(|v| vecp(&v.to_string())).collect();
            let f = Given { vals: ks, calls: RefCell::new(vec![]) };
            let mut so = RecN { cbs: vec![], calls_at: vec![], stop_at: 2 };
            let xend = x0 + 4.0 * h;
            let (rtol, atol): (ivp::methods::Tolerance, ivp::methods::Tolerance) = if rt.len() == 1 { (rt[0].into(), at[0].into()) } else { (rt.clone().into(), at.clone().into()) };
            let r = match method.as_str() {
                "RK23" => RK23::builder().first_step(h).build().solve(&f, x0, &y0, xend, rtol, atol, Some(&mut so)),
                "DOPRI5" => DOPRI5::builder().first_step(h).build().solve(&f, x0, &y0, xend, rtol, atol, Some(&mut so)),
                _ => DOP853::builder().first_step(h).build().solve(&f, x0, &y0, xend, rtol, atol, Some(&mut so)),
            };
            let calls = f.calls.borrow();
            let cb: Vec<String> = so.cbs.iter().map(|c| format!("{{\"xold\":{},\"x\":{},\"y\":{}}}", js(c.0), js(c.1), jl(&c.2))).collect();
            let ts: Vec<f64> = calls.iter().map(|c| c.0).collect();
            println!("{{\"ok\":{},\"callbacks\":[{}],\"t\":{},\"ncalls\":{}}}", r.is_ok(), cb.join(","), jl(&ts), calls.len());
        }
        // probe lookup X0 H0,H1,.. T0,T1,..  : which stored segment the strict (Solution::sol) and the extrapolating (Python OdeSolution.__call__)
        //   lookups evaluate; segment k is the constant k (RK4 Hermite data [k,0,0,k]); segments are contiguous: xold_{k+1} = fl(xold_k + h_k)
        "lookup" => {
            let x0: f64 = a[2].parse().unwrap();
            let hs: Vec<f64> = a[3].split(',').map(|v| v.parse().unwrap()).collect();
            let ts: Vec<f64> = a[4].split(',').map(|v| v.parse().unwrap()).collect();
            let mut segs = vec![];
            let mut x = x0;
            let mut xs = vec![x0];
            for (k, h) in hs.iter().enumerate() {
                let v = k as f64;
                segs.push((vec![v, 0.0, 0.0, v], x, *h));
                x = x + *h;
                xs.push(x);
            }
            let co = ivp::verif_hooks::continuous_from_segments(Method::RK4, 1, segs);
            let idx = |o: Option<Vec<f64>>| -> String { match o { Some(v) => format!("{}", v[0].round() as i64), None => "null".to_string() } };
            let rows: Vec<String> = ts.iter().map(|t| format!("[{},{}]", idx(co.evaluate(*t)), idx(co.evaluate_extrapolate(*t)))).collect();
            println!("{{\"xs\":{},\"results\":[{}]}}", jl(&xs), rows.join(","));
        }
        // probe radaumass : Radau on M y' = A y (non-symmetric M, Full mass storage) vs Radau on y' = M^-1 A y; final states
        "radaumass" => {
            let mut outs = vec![];
            for use_mass in [true, false] {
                let f = MassLin { use_mass };
                let mut so = RecN { cbs: vec![], calls_at: vec![], stop_at: usize::MAX };
                let r = RADAU::builder().mass_storage(MatrixStorage::Full).build().solve(&f, 0.0, &[1.0, -0.5], 1.0, 1e-9.into(), 1e-12.into(), Some(&mut so));
                let last = so.cbs.last().map(|c| c.2.clone()).unwrap_or_default();
                outs.push(format!("{{\"use_mass\":{},\"ok\":{},\"y\":{},\"steps\":{}}}", use_mass, r.is_ok(), jl(&last), so.cbs.len()));
            }
            println!("{{\"runs\":[{}]}}", outs.join(","));
        }
        // probe ondemand METHOD H : 4 fixed steps on the smooth problem, once with dense output on and once
        // with dense_output(false) + an XOut request that becomes due in step 3
        "ondemand" => {
            let method = a[2].clone();
            let h: f64 = a[3].parse().unwrap();
            let mut outs = vec![];
            for dense in [true, false] {
                let base = Run { method: method.clone(), x0: 0.25, xend: 0.25 + 1.0e3 * h.signum(), y0: 0.75, h0: Some(h), max_step: Some(h.abs()), max_steps: 10, rtol: 0.0, atol: 1.0e300, dense };
                let f = F::new(Rhs::Smooth);
                let mut so = Rec { cbs: vec![], dense: vec![], bounds: vec![], thetas: thetas.clone(), stop_after: 5, flags: if dense { vec![] } else { vec![b'X'] }, modified_to: 0.0, xout_at: 0.25 + 2.5 * h, calls_at_cb: vec![], had_interp: vec![] };
                // record which callbacks came with an interpolant
                let _ = solve(&base, &f, &mut so);
                let cb: Vec<String> = so.cbs.iter().map(|c| format!("[{},{},{}]", js(c.0), js(c.1), js(c.2))).collect();
                let dn: Vec<String> = so.dense.iter().map(|d| jl(d)).collect();
                let bd: Vec<String> = so.bounds.iter().map(|c| format!("[{},{}]", js(c.0), js(c.1))).collect();
                outs.push(format!("{{\"dense_on\":{},\"callbacks\":[{}],\"dense\":[{}],\"bounds\":[{}]}}", dense, cb.join(","), dn.join(","), bd.join(",")));
            }
            println!("{{\"method\":\"{}\",\"runs\":[{}]}}", method, outs.join(","));
        }
        // probe stiff METHOD : stiff problem until the solver gives up; counters vs reported intervals
        "stiff" => {
            let run = Run { method: a[2].clone(), x0: 0.0, xend: 20.0, y0: 0.0, h0: None, max_step: None, max_steps: 10_000_000, rtol: 1e-4, atol: 1e-6, dense: true };
            let f = F::new(Rhs::Stiff);
            let mut so = Rec { cbs: vec![], dense: vec![], bounds: vec![], thetas: vec![], stop_after: 0, flags: vec![], modified_to: 0.0, xout_at: 0.0, calls_at_cb: vec![], had_interp: vec![] };
            match solve(&run, &f, &mut so) {
                Ok(res) => println!("{{\"ok\":true,\"status\":\"{:?}\",\"nfev\":{},\"ode_calls\":{},\"naccpt\":{},\"intervals\":{},\"nstep\":{}}}", res.status, res.evals.ode, f.calls.borrow().len(), res.steps.accepted, so.cbs.len() - 1, res.steps.total),
                Err(e) => println!("{{\"ok\":false,\"error\":\"{:?}\"}}", e),
            }
        }
        // probe handler XS TEVAL|none FIRST|none DENSE CONFIGS|none VALUES|none
        //   XS "x0,x1,..", TEVAL "t0,t1,..", CONFIGS "A:0,P:2" (dir:terminal_count, 0 = none), VALUES "v,v;v,v;.." per callback
        "handler" => {
            let pf = |s: &str| -> Vec<f64> { if s == "none" || s.is_empty() { vec![] } else { s.split(',').map(|v| v.parse().unwrap()).collect() } };
            let xs = pf(&a[2]);
            let te = if a[3] == "none" { None } else { Some(pf(&a[3])) };
            let fs: Option<f64> = if a[4] == "none" { None } else { Some(a[4].parse().unwrap()) };
            let dense = a[5] == "1";
            let configs: Vec<(Direction, Option<usize>)> = if a[6] == "none" { vec![] } else { a[6].split(',').map(|c| {
                let mut it = c.split(':');
                let d = match it.next().unwrap() { "P" => Direction::Positive, "N" => Direction::Negative, _ => Direction::All };
                let n: usize = it.next().unwrap().parse().unwrap();
                (d, if n == 0 { None } else { Some(n) }) }).collect() };
            let vals: Vec<Vec<f64>> = if a[7] == "none" { vec![vec![]; xs.len()] } else { a[7].split(';').map(|r| pf(r)).collect() };
            let ev = Ev { configs, vals, call: Cell::new(0), probes: Cell::new(0) };
            let mut so = SolOutProbe::new(&ev, te, dense, fs, xs[0], 1);
            let cont = [0.0f64; 1];
            let mut flags = vec![];
            let mut intact = vec![];
            for k in 0..xs.len() {
                ev.call.set(k);
                ev.probes.set(0);
                let mut x = xs[k];
                let mut y = [xs[k]];
                let f = if k == 0 { so.call(xs[0], &mut x, &mut y, None) } else {
                    let it = StepInterpolant::new(&cont, xs[k - 1], xs[k] - xs[k - 1], interp_id);
                    so.call(xs[k - 1], &mut x, &mut y, Some(&it))
                };
                intact.push(x.to_bits() == xs[k].to_bits() && y[0].to_bits() == xs[k].to_bits());
                let stop = f == ControlFlag::Interrupt;
                flags.push(format!("\"{:?}\"", f));
                if stop { break; }
            }
            let (t, y, te_, ye_, ds) = so.into_payload();
            let yy: Vec<f64> = y.iter().map(|r| r[0]).collect();
            let tev: Vec<String> = te_.iter().map(|r| jl(r)).collect();
            let yev: Vec<String> = ye_.iter().map(|r| jl(&r.iter().map(|s| s[0]).collect::<Vec<f64>>())).collect();
            println!("{{\"t\":{},\"y\":{},\"t_events\":[{}],\"y_events\":[{}],\"flags\":[{}],\"intact\":{:?},\"dense_segs\":{}}}",
                jl(&t), jl(&yy), tev.join(","), yev.join(","), flags.join(","), intact, ds.len());
        }
        // probe radautol : Radau on an 8-dimensional linear decay with a scalar tolerance and with the same
        // value as a constant vector: step statistics must agree
        "radautol" => {
            struct Decay;
            impl IVP for Decay { fn ode(&self, _x: f64, y: &[f64], d: &mut [f64]) { for i in 0..y.len() { d[i] = -(1.0 + i as f64) * y[i]; } } }
            let y0 = [1.0f64; 8];
            let o1 = Options::builder().method(Method::RADAU).rtol(1e-6).atol(1e-9).build();
            let o2 = Options::builder().method(Method::RADAU).rtol([1e-6; 8]).atol([1e-9; 8]).build();
            let s1 = solve_ivp(&Decay, 0.0, 2.0, &y0, o1).unwrap();
            let s2 = solve_ivp(&Decay, 0.0, 2.0, &y0, o2).unwrap();
            println!("{{\"scalar\":{{\"naccpt\":{},\"nfev\":{},\"y_end\":{}}},\"vector\":{{\"naccpt\":{},\"nfev\":{},\"y_end\":{}}}}}",
                s1.naccpt, s1.nfev, js(s1.y.last().unwrap()[0]), s2.naccpt, s2.nfev, js(s2.y.last().unwrap()[0]));
        }
        // probe firststep : first_step larger than the interval, through solve_ivp, every method
        "firststep" => {
            struct Dec; impl IVP for Dec { fn ode(&self, _x: f64, y: &[f64], d: &mut [f64]) { d[0] = -y[0]; } }
            let mut out = vec![];
            for (nm, me) in [("RK4", Method::RK4), ("RK23", Method::RK23), ("DOPRI5", Method::DOPRI5), ("DOP853", Method::DOP853), ("RADAU", Method::RADAU), ("BDF", Method::BDF)] {
                let o = Options::builder().method(me).first_step(2.5).build();
                let s = solve_ivp(&Dec, 0.0, 1.0, &[1.0], o).unwrap();
                let last = *s.t.last().unwrap();
                out.push(format!("\"{}\":{{\"status\":\"{:?}\",\"t\":{},\"ends_at_xend\":{}}}", nm, s.status, jl(&s.t), (last - 1.0).abs() < 1e-9));
            }
            println!("{{{}}}", out.join(","));
        }
        // probe modinit METHOD h0 rtol : (a) y0 = 0.5 and the INITIAL callback writes 0.25 + ModifiedSolution, (b) y0 = 0.25 and Continue:
        //   from the first step on the two runs must be the same run (callback times bit-for-bit), (a) with one more evaluation
        "modinit" => {
            let h0: f64 = a[3].parse().unwrap();
            let rtol: f64 = a[4].parse().unwrap();
            let mut outs = vec![];
            for (y0, flags) in [(0.5, "M"), (0.25, "C")] {
                let run = Run { method: a[2].clone(), x0: 0.0, xend: 0.5, y0, h0: Some(h0), max_step: None, max_steps: 100000, rtol, atol: rtol * 1e-2, dense: true };
                let f = F::new(Rhs::Smooth);
                let mut so = Rec { cbs: vec![], dense: vec![], bounds: vec![], thetas: vec![], stop_after: 0, flags: flags.as_bytes().to_vec(), modified_to: 0.25, xout_at: 0.0, calls_at_cb: vec![], had_interp: vec![] };
                let r = solve(&run, &f, &mut so);
                let xs: Vec<f64> = so.cbs.iter().map(|c| c.1).collect();
                let ys: Vec<f64> = so.cbs.iter().skip(1).map(|c| c.2).collect();
                outs.push(format!("{{\"ok\":{},\"x\":{},\"y\":{},\"ode_calls\":{}}}", r.is_ok(), jl(&xs), jl(&ys), f.calls.borrow().len()));
            }
            println!("{{\"runs\":[{}]}}", outs.join(","));
        }
        // probe stiffdense METHOD rtol xend : Van der Pol mu=1000; per accepted step: does the interpolant span [xold, x] and reproduce y at x?
        "stiffdense" => {
            let rtol: f64 = a[3].parse().unwrap();
            let xend: f64 = a[4].parse().unwrap();
            let f = Vdp { mu: 1000.0, odes: Cell::new(0), jacs: Cell::new(0) };
            let mut so = RecB { rows: vec![] };
            let y0 = [2.0, 0.0];
            let r = match a[2].as_str() {
                "RADAU" => RADAU::builder().build().solve(&f, 0.0, &y0, xend, rtol.into(), rtol.into(), Some(&mut so)),
                _ => BDF::builder().build().solve(&f, 0.0, &y0, xend, rtol.into(), rtol.into(), Some(&mut so)),
            };
            let mut bad = vec![];
            for (k, r) in so.rows.iter().enumerate() {
                let (lo, hi) = if r.2 <= r.3 { (r.2, r.3) } else { (r.3, r.2) };
                let tol = 8.0 * f64::EPSILON * (r.0.abs().max(r.1.abs()));
                let span_ok = (lo - r.0.min(r.1)).abs() <= tol && (hi - r.0.max(r.1)).abs() <= tol;
                let val_ok = (r.5 - r.4).abs() <= 1e-9 * (1.0 + r.4.abs());
                if !span_ok || !val_ok { bad.push(format!("{{\"step\":{},\"xold\":{},\"x\":{},\"lo\":{},\"hi\":{},\"y\":{},\"interp_at_x\":{}}}", k, js(r.0), js(r.1), js(lo), js(hi), js(r.4), js(r.5))); }
            }
            let (nfev, njev, st) = match &r { Ok(v) => (v.evals.ode, v.evals.jac, format!("{:?}", v.status)), Err(_) => (0, 0, String::new()) };
            println!("{{\"ok\":{},\"steps\":{},\"status\":\"{}\",\"nfev\":{},\"njev\":{},\"ode_calls\":{},\"jac_calls\":{},\"bad\":[{}]}}", r.is_ok(), so.rows.len(), st, nfev, njev, f.odes.get(), f.jacs.get(), bad.iter().take(5).cloned().collect::<Vec<_>>().join(","));
        }
        // probe radaunan K : RADAU (default options, max_steps default) on the smooth problem whose right-hand side is NaN from evaluation K on
        "radaunan" => {
            let k: usize = a[2].parse().unwrap();
            let f = F::new(Rhs::NanFrom(k));
            let mut so = Rec { cbs: vec![], dense: vec![], bounds: vec![], thetas: vec![], stop_after: 0, flags: vec![], modified_to: 0.0, xout_at: 0.0, calls_at_cb: vec![], had_interp: vec![] };
            let _ = &mut so;
            // through solve_ivp with its default (unbounded) step budget: a controller that stops shrinking never returns;
            // F::ode prints {"hang":true} and exits after 5e6 evaluations
            let me = match a.get(3).map(|s| s.as_str()) { Some("BDF") => Method::BDF, Some("RK23") => Method::RK23, Some("DOPRI5") => Method::DOPRI5, Some("DOP853") => Method::DOP853, _ => Method::RADAU };
            let o = Options::builder().method(me).rtol(1e-6).atol(1e-9).build();
            match solve_ivp(&f, 0.0, 10.0, &[0.5], o) {
                Ok(s) => println!("{{\"status\":\"{:?}\",\"steps\":{},\"nonfinite_state\":{}}}", s.status, s.t.len(), s.y.iter().any(|v| !v[0].is_finite())),
                Err(e) => println!("{{\"status\":\"Err({:?})\",\"steps\":0,\"nonfinite_state\":false}}", e),
            }
        }
        // probe duphinit : first accepted step of solve_ivp without first_step for 1 / 2 / 4 identical copies
        "duphinit" => {
            let mut out = vec![];
            for (nm, me) in [("RK23", Method::RK23), ("DOPRI5", Method::DOPRI5), ("BDF", Method::BDF)] {
                let mut rows = vec![];
                for n in [1usize, 2, 4] {
                    let o = Options::builder().method(me.clone()).rtol(1e-6).atol(1e-9).build();
                    let s = solve_ivp(&Dup(n), 0.0, 2.0, &vec![1.0; n], o).unwrap();
                    rows.push(format!("{{\"n\":{},\"t1\":{},\"steps\":{}}}", n, js(s.t[1]), s.t.len()));
                }
                out.push(format!("\"{}\":[{}]", nm, rows.join(",")));
            }
            println!("{{{}}}", out.join(","));
        }
        // probe smoothrun METHOD x0 xend h0|none max_step|none rtol FLAGS : the real solver on y' = cos t + y/2 (scripted callback flags only)
        "smoothrun" => {
            let p = |s: &String| -> Option<f64> { if s == "none" { None } else { Some(s.parse().unwrap()) } };
            let rtol: f64 = a[7].parse().unwrap();
            let run = Run { method: a[2].clone(), x0: a[3].parse().unwrap(), xend: a[4].parse().unwrap(), y0: 0.5, h0: p(&a[5]), max_step: p(&a[6]), max_steps: 100000, rtol, atol: rtol * 1e-3, dense: true };
            let f = F::new(if a.get(9).map(|s| s == "slow").unwrap_or(false) { Rhs::Slow } else { Rhs::Smooth });
            let mut so = Rec { cbs: vec![], dense: vec![], bounds: vec![], thetas: vec![0.0, 1.0], stop_after: 0, flags: a[8].as_bytes().to_vec(), modified_to: 0.25, xout_at: 0.0, calls_at_cb: vec![], had_interp: vec![] };
            let r = solve(&run, &f, &mut so);
            let calls = f.calls.borrow();
            let ts: Vec<f64> = calls.iter().map(|c| c.0).collect();
            let ys: Vec<f64> = calls.iter().map(|c| c.1).collect();
            let cb: Vec<String> = so.cbs.iter().map(|c| format!("[{},{},{}]", js(c.0), js(c.1), js(c.2))).collect();
            let bd: Vec<String> = so.bounds.iter().map(|c| format!("[{},{}]", js(c.0), js(c.1))).collect();
            match r {
                Ok(res) => println!("{{\"ok\":true,\"status\":\"{:?}\",\"nfev\":{},\"njev\":{},\"nstep\":{},\"naccpt\":{},\"nrejct\":{},\"h\":{},\"ode_calls\":{},\"jac_calls\":{},\"t\":{},\"y\":{},\"callbacks\":[{}],\"bounds\":[{}],\"calls_at_cb\":{:?},\"had_interp\":{:?}}}",
                    res.status, res.evals.ode, res.evals.jac, res.steps.total, res.steps.accepted, res.steps.rejected, js(res.h), calls.len(), f.jac_calls.get(), jl(&ts), jl(&ys), cb.join(","), bd.join(","), so.calls_at_cb, so.had_interp),
                Err(e) => println!("{{\"ok\":false,\"error\":\"{:?}\"}}", e),
            }
        }
        // probe optindep : solve_ivp (RK4, 250001 fixed steps; RK23 with a tight max_step) with and without dense_output / t_eval, default max_steps:
        //   status, number of accepted steps and final state must not depend on the output options
        "optindep" => {
            struct Dec; impl IVP for Dec { fn ode(&self, _x: f64, y: &[f64], d: &mut [f64]) { d[0] = -y[0]; } }
            let mut out = vec![];
            for (nm, me) in [("RK4", Method::RK4), ("RK23", Method::RK23)] {
                for (dense, te) in [(false, false), (true, false), (false, true), (true, true)] {
                    let b = Options::builder().method(me).dense_output(dense);
                    let o = match (nm, te) {
                        ("RK4", false) => b.first_step(1.0 / 250001.0).build(),
                        ("RK4", true) => b.first_step(1.0 / 250001.0).t_eval(vec![0.5, 1.0]).build(),
                        (_, false) => b.max_step(1.0 / 250001.0).build(),
                        (_, true) => b.max_step(1.0 / 250001.0).t_eval(vec![0.5, 1.0]).build(),
                    };
                    let s = solve_ivp(&Dec, 0.0, 1.0, &[1.0], o).unwrap();
                    out.push(format!("{{\"method\":\"{}\",\"dense\":{},\"t_eval\":{},\"status\":\"{:?}\",\"naccpt\":{},\"last_t\":{},\"last_y\":{}}}", nm, dense, te, s.status, s.naccpt, js(s.t.last().copied().unwrap_or(f64::NAN)), js(s.y.last().map(|v| v[0]).unwrap_or(f64::NAN))));
                }
            }
            println!("[{}]", out.join(","));
        }
        _ => { eprintln!("usage: probe tableau|fsal|ondemand|script|stiff|handler|radautol|firststep ..."); std::process::exit(2); }
    }
}
