"""Which units decide which property, per tier. Units are Kani harness names (engine K) or
Python callables from /verif/rsym (engine R)."""
import json
import os
import re

VERIF = os.path.dirname(os.path.dirname(os.path.abspath(__file__)))


def harness_names(module):
    """All #[kani::proof] function names in kani/src/<module>.rs (hand-written harnesses)."""
    src = open(os.path.join(VERIF, "kani", "src", module + ".rs")).read()
    names = re.findall(r"#\[kani::proof\][^{]*?fn\s+(\w+)\s*\(", src, re.S)
    names += re.findall(r"per_n!\((\w+),", src)
    return names


def _c17(tier):
    cases = json.load(open(os.path.join(VERIF, "kani", "gen", "c17_cases.json")))
    hand = harness_names("c17")
    quick_hand = [n for n in hand if not n.endswith("_n4")]
    if tier == "quick":
        return cases["quick"] + quick_hand
    return cases["quick"] + cases["thorough"] + hand


def _c16(tier):
    hand = harness_names("c16") + re.findall(r"shape_case!\((\w+),", open(os.path.join(VERIF, "kani", "src", "c16.rs")).read())
    slow = {"c16_real_residual_smallint_n3_a", "c16_real_residual_smallint_n3_b", "c16_real_residual_smallint_n3_c",
            "c16_real_residual_smallint_n3_d", "c16_real_residual_smallint_n2_wide", "c16_complex_residual_smallint_n2"}
    if tier == "quick":
        return [n for n in hand if n not in slow]
    return hand


PROPS = {}

PROPS["C16"] = {
    "level": "model_checking",
    "k": {"quick": _c16("quick"), "thorough": _c16("thorough")},
    "files": ["src/matrix/lu.rs", "src/matrix/linear.rs", "src/matrix/index.rs"],
    "functions": ["ivp::matrix::lu_decomp", "ivp::matrix::lu_decomp_complex", "ivp::matrix::lin_solve",
                  "ivp::matrix::lin_solve_complex", "Matrix Index/IndexMut"],
    "bounds": {"quick": "real n<=3 structural facts over all binary64 entries; multipliers n<=3 (first stage) on entries 0 or 2^-200<=|a|<=2^200; residual on symbolic integer entries in [-3,3], n=2; complex n<=2 structural, n=1 residual",
               "thorough": "quick + residual n=3 (entries in [-1,1], a00 split 4-way incl. [-2,2] slice), n=2 entries in [-7,7], complex n=2 Gaussian integers in [-1,1]"},
    "explanation": "Each unit is one CBMC run over the compiled lu/linear code with symbolic matrices; SAT (CaDiCaL) decides the assertion for every matrix inside the stated domain. Bit-precise binary64.",
    "assumptions": ["matrices built through Matrix::from_vec / IndexMut only", "no-overflow proviso for the multiplier bound: entries are 0 or in [2^-200, 2^200]"],
    "outside": ["n >= 4, graded/random large matrices", "residual bound for arbitrary binary64 entries (adder/multiplier equivalence beyond SAT reach)"],
    "stubs": [],
}

PROPS["C17"] = {
    "level": "model_checking",
    "k": {"quick": _c17("quick"), "thorough": _c17("thorough")},
    "files": ["src/matrix/base.rs", "src/matrix/index.rs", "src/matrix/add.rs", "src/matrix/sub.rs", "src/matrix/mul.rs"],
    "functions": ["Matrix constructors", "Index/IndexMut", "Add/Sub/AddAssign/SubAssign", "component_add/sub/mul(_mut)", "is_identity"],
    "bounds": {"quick": "n<=3; constructors/writes: symbolic (ml,mu)<=n and symbolic finite entries; arithmetic: n=3, every storage-kind pair, banded profiles Q3 x Q3 (5x5) concrete, entries from {0,1,-2,4,-0.5,16}, scalars {0,0.5,-2,8}",
               "thorough": "n in {2,3,4}; n=2,3: all band profiles with ml,mu<=n-1 (9x9 pairs for n=3); n=4: 3 profiles + mixed"},
    "explanation": "Dense [[f64;4];4] reference model inside each harness; CBMC decides entrywise equality at a symbolic (i,j). One harness per concrete (n, storage, ml, mu) profile for data-loop operations (symbolic band widths run CBMC out of memory).",
    "assumptions": ["entries restricted to signed powers of two for arithmetic facts: decides routing of entries, not float arithmetic", "NaN/inf entries excluded"],
    "outside": ["n > 4", "arbitrary binary64 entries in A+-B (SAT adder equivalence: no verdict in 600 s)", "swap_rows", "matrix! bracket form (compile-time fact)"],
    "stubs": [],
}
