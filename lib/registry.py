"""Which units decide which property, per tier. Units are Kani harness names (engine K) or
Python callables from /verif/rsym (engine R)."""
import json
import os
import re

VERIF = os.path.dirname(os.path.dirname(os.path.abspath(__file__)))


def harness_names(module):
    """All #[kani::proof] function names in kani/src/<module>.rs (hand-written harnesses)."""
    src = open(os.path.join(VERIF, "kani", "src", module + ".rs")).read()
    names = re.findall(r"#\[kani::proof\][^{]*?fn\s+(\w+)\s*\(", src, re.S)
    names += re.findall(r"per_n!\((\w+),", src)
    return names


def _c17(tier):
    cases = json.load(open(os.path.join(VERIF, "kani", "gen", "c17_cases.json")))
    hand = harness_names("c17")
    quick_hand = [n for n in hand if not n.endswith("_n4")]
    if tier == "quick":
        return cases["quick"] + quick_hand
    return cases["quick"] + cases["thorough"] + hand


def _c16(tier):
    hand = harness_names("c16") + re.findall(r"shape_case!\((\w+),", open(os.path.join(VERIF, "kani", "src", "c16.rs")).read())
    slow = {"c16_real_residual_smallint_n3_a", "c16_real_residual_smallint_n3_b", "c16_real_residual_smallint_n3_c",
            "c16_real_residual_smallint_n3_d", "c16_real_residual_smallint_n2_wide", "c16_complex_residual_smallint_n2",
            "c16_complex_residual_fixed_rhs_general", "c16_complex_residual_fixed_rhs_imag_multiplier",
            "c16_complex_residual_fixed_rhs_real_multiplier"}
    if tier == "quick":
        return [n for n in hand if n not in slow]
    return hand


PROPS = {}

PROPS["C16"] = {
    "level": "model_checking",
    "caps": {"quick": {"timeout_s": 600, "mem_gb": 12}, "thorough": {"timeout_s": 5400, "mem_gb": 14}},
    "k": {"quick": _c16("quick"), "thorough": _c16("thorough")},
    "files": ["src/matrix/lu.rs", "src/matrix/linear.rs", "src/matrix/index.rs"],
    "functions": ["ivp::matrix::lu_decomp", "ivp::matrix::lu_decomp_complex", "ivp::matrix::lin_solve",
                  "ivp::matrix::lin_solve_complex", "Matrix Index/IndexMut"],
    "bounds": {"quick": "real n<=3 structural facts over all binary64 entries; multipliers n<=3 (first stage) on entries 0 or 2^-200<=|a|<=2^200; residual on symbolic integer entries in [-3,3], n=2; complex n<=2 structural, n=1 residual",
               "thorough": "quick + residual n=3 (entries in [-1,1], a00 split 4-way incl. [-2,2] slice), n=2 entries in [-7,7], complex n=2 Gaussian integers in [-1,1]"},
    "explanation": "Each unit is one CBMC run over the compiled lu/linear code with symbolic matrices; SAT (CaDiCaL) decides the assertion for every matrix inside the stated domain. Bit-precise binary64.",
    "assumptions": ["matrices built through Matrix::from_vec / IndexMut only", "no-overflow proviso for the multiplier bound: entries are 0 or in [2^-200, 2^200]"],
    "outside": ["n >= 4, graded/random large matrices", "residual bound for arbitrary binary64 entries (adder/multiplier equivalence beyond SAT reach)"],
    "stubs": [],
}

PROPS["C17"] = {
    "level": "model_checking",
    "k": {"quick": _c17("quick"), "thorough": _c17("thorough")},
    "files": ["src/matrix/base.rs", "src/matrix/index.rs", "src/matrix/add.rs", "src/matrix/sub.rs", "src/matrix/mul.rs"],
    "functions": ["Matrix constructors", "Index/IndexMut", "Add/Sub/AddAssign/SubAssign", "component_add/sub/mul(_mut)", "is_identity"],
    "bounds": {"quick": "n<=3; constructors/writes: symbolic (ml,mu)<=n and symbolic finite entries; arithmetic: n=3, every storage-kind pair, banded profiles Q3 x Q3 (5x5) concrete, entries from {0,1,-2,4,-0.5,16}, scalars {0,0.5,-2,8}",
               "thorough": "n in {2,3,4}; n=2,3: all band profiles with ml,mu<=n-1 (9x9 pairs for n=3); n=4: 3 profiles + mixed"},
    "explanation": "Dense [[f64;4];4] reference model inside each harness; CBMC decides entrywise equality at a symbolic (i,j). One harness per concrete (n, storage, ml, mu) profile for data-loop operations (symbolic band widths run CBMC out of memory).",
    "assumptions": ["entries restricted to signed powers of two for arithmetic facts: decides routing of entries, not float arithmetic", "NaN/inf entries excluded"],
    "outside": ["n > 4", "arbitrary binary64 entries in A+-B (SAT adder equivalence: no verdict in 600 s)", "swap_rows", "matrix! bracket form (compile-time fact)"],
    "stubs": [],
}


def _names_from_macro(module, macro):
    src = open(os.path.join(VERIF, "kani", "src", module + ".rs")).read()
    return re.findall(macro + r"!\((\w+),", src)


PROPS["C18"] = {
    "level": "model_checking",
    "k": {"quick": [n for n in _names_from_macro("c18", "c18") if "dop853" not in n and "bdf" not in n],
          "thorough": _names_from_macro("c18", "c18")},
    "files": ["src/methods/rk4.rs", "src/methods/rk23.rs", "src/methods/dopri5.rs", "src/methods/dop853.rs",
              "src/methods/radau.rs", "src/methods/bdf.rs", "src/methods/mod.rs", "src/solve/solve_ivp.rs"],
    "functions": ["RK4::solve", "RK23::solve", "DOPRI5::solve", "DOP853::solve", "RADAU::solve", "BDF::solve", "hinit"],
    "explanation": "Counting IVP (own ode/jac counters, jac overridden) + recorder SolOut; the RHS returns nondeterministic finite values so every accept/reject pattern within the call budget is covered by one SAT query per fact.",
    "bounds": {"quick": "n=1; concrete grid x0=0,xend=1,first_step=0.5 (and mirror); first 2 trial steps (explicit), 1 iteration (Radau, newton_maxiter=1); call budget = stages*2+2",
               "thorough": "adds DOP853 (2 trials) and BDF (1 iteration)"},
    "assumptions": ["powf replaced by a contract model (DESIGN section 2)", "RHS values finite, |v|<=1e6", "paths longer than the call budget are cut (assume(false)) and outside the claim"],
    "stubs": ["f64::powf -> common::powf_model", "f64::powi -> common::powi_model", "IVP::ode/jac -> nondeterministic"],
    "outside": ["steps beyond the call budget", "stiffness-test exits", "the default finite-difference Jacobian's own ode calls (excluded from nfev by the statement)"],
}


# ------------------------------------------------------------------------------- engine R units
def _r():
    import sys
    if VERIF not in sys.path:
        sys.path.insert(0, VERIF)
    from rsym import units_rk as U
    return U


def _c02(tier):
    U = _r()
    units = []
    for m in ("RK4", "RK23", "DOPRI5", "DOP853"):
        units.append(U.structure_unit(m))
        units.append(U.structure_unit(m, config="ondemand"))
        if m == "DOP853" and tier == "quick":
            units.append(U.order_unit(m, max_order=7))
        else:
            units.append(U.order_unit(m))
    return units


def _c07(tier):
    U = _r()
    return [U.dense_unit(m) for m in ("RK4", "RK23", "DOPRI5", "DOP853")] + [U.dense_unit(m, config="ondemand") for m in ("RK23", "DOPRI5", "DOP853")]


def _c06r(tier):
    U = _r()
    return [U.endpoints_unit(m) for m in ("RK4", "RK23", "DOPRI5", "DOP853")]


_RK_FILES = ["src/methods/rk4.rs", "src/methods/rk23.rs", "src/methods/dopri5.rs", "src/methods/dop853.rs", "src/methods/mod.rs"]

PROPS["C02"] = {
    "level": "other",
    "r": {"quick": _c02("quick"), "thorough": _c02("thorough")},
    "files": _RK_FILES + ["src/methods/radau.rs"],
    "functions": ["RK4::solve", "RK23::solve", "DOPRI5::solve", "DOP853::solve (stage blocks, update, error estimate)", "module constants"],
    "explanation": "The real solve() of each explicit method is executed symbolically (exact real arithmetic, n=1, symbolic x0,h,y0, fresh symbol per right-hand-side call, loop-carried scalars havoced) through one main-loop iteration; the Butcher tableau is read off the recorded call arguments as the code applies it (buffer reuse included). z3 then discharges: stage arguments/abscissae/new state are the extracted affine forms for all y,h,k (quantified); row sums; every Runge-Kutta order condition for all rooted trees up to p (ground rational arithmetic); estimator forms vanish exactly up to their order and not beyond; FSAL derivative evaluated at (x+h, y_new).",
    "bounds": {"quick": "RK4 p=4 (8 trees), RK23 p=3 (4), DOPRI5 p=5 (17), DOP853 trees up to order 7 (85)", "thorough": "DOP853 all 200 trees up to order 8"},
    "assumptions": ["floats as reals (order is a statement of real analysis); constants = exact rationals of their binary64 values, tolerance 16(|t|+1)*2^-53*sum|w_i|Phi_i(|A|)"],
    "trusted_base": ["Butcher's order theorem", "z3 4.x nlsat/simplex", "sympy used only as the encoder's normal form"],
    "outside": ["Radau's Newton path (data-dependent iteration)", "'accepted steps grow like tol^(-1/q)' (whole-run)", "coefficient errors below ~1e-13 relative"],
}
PROPS["C07"] = {
    "level": "other",
    "r": {"quick": _c07("quick"), "thorough": _c07("thorough")},
    "files": _RK_FILES,
    "functions": ["'Prepare dense output' blocks composed with RK4/RK23/DOPRI5/DOP853::interpolate"],
    "explanation": "Continuous weights b_i(theta) obtained by symbolically composing the dense-output preparation of the executed step with the method's interpolate(); for every rooted tree up to the advertised interpolant order q, z3 decides the univariate polynomial obligation |sum b_i(theta) Phi_i - theta^|t|/gamma| <= tol for ALL theta in [0,1].",
    "bounds": "q = 3 (RK4, RK23), 4 (DOPRI5), 7 (DOP853: 85 trees); n = 1; exact real arithmetic",
    "assumptions": ["floats as reals"],
    "trusted_base": ["continuous order conditions characterise the uniform order of a continuous extension"],
    "outside": ["observed convergence rates on concrete problems", "Radau/BDF interpolants (see C06 for their endpoint identities)"],
}
PROPS["C06"] = {
    "level": "other",
    "r": {"quick": _c06r("quick"), "thorough": _c06r("thorough")},
    "files": _RK_FILES,
    "functions": ["dense-output blocks + interpolate() of the explicit methods"],
    "explanation": "Endpoint identities of the step interpolant (interp(xold) == y_old exactly, interp(xold+h) == y_new to rounding of the constants, interpolant step == accepted step), decided by z3 for all y,h,k on the symbolically executed step.",
    "bounds": "n = 1; one accepted step; exact real arithmetic",
    "assumptions": ["floats as reals"],
    "outside": ["float continuity beyond rounding"],
}


# ------------------------------------------------------------------------------- stepper control facts (R-round)
def _rs():
    import sys
    if VERIF not in sys.path:
        sys.path.insert(0, VERIF)
    from rsym import units_step as US
    return US


_EXPL_Q = [("RK4", False), ("RK23", False), ("DOPRI5", False), ("RK23", True), ("DOP853", False)]
_EXPL_T = [(m, b) for m in ("RK4", "RK23", "DOPRI5", "DOP853") for b in (False, True)]


def _step_units(kind, tier):
    US = _rs()
    combos = _EXPL_Q if tier == "quick" else _EXPL_T
    units = []
    for m, b in combos:
        if kind == "c18":
            units.append(US.c18_counters(m, b))
        elif kind == "c03":
            units.append(US.c03_times(m, b))
            units.append(US.c03_prefix(m, b))
            if tier == "thorough" and m != "RK4":
                units.append(US.c03_times(m, b, with_max_step=False))
                units.append(US.c03_prefix(m, b, with_first_step=False))
        elif kind == "c19":
            units.append(US.c19_protocol(m, b))
        elif kind == "c11":
            units.append(US.c11_budget(m, b))
    return units


_ST_FILES = ["src/methods/rk4.rs", "src/methods/rk23.rs", "src/methods/dopri5.rs", "src/methods/dop853.rs", "src/methods/mod.rs"]
_ST_EXPL = ("The real solve() is executed symbolically from the source (own interpreter for the Rust subset): its prefix along all paths, "
            "and ONE main-loop iteration from an ARBITRARY loop-head state constrained only by the stated invariant (inductive step, so the "
            "facts hold for every iteration, not the first k). Time variables are z3 reals with one relative rounding error (2^-53) per "
            "float operation plus monotonicity of rounding; right-hand-side data are free; counters are symbolic; the callback returns a "
            "nondeterministic flag. Every feasible path is enumerated (z3 prunes), every fact is a z3 query `path & !fact` = unsat.")
_ST_ASSUME = ["binary64 modelled as reals with relative error 2^-53 per operation (normal range; no NaN/inf/overflow/underflow: those are engine K's)",
              "powf modelled by its contract (result >= 0; base >1/<1 and exponent sign bound it by 1)",
              "loop-head states with x == xend exactly and last == false (needs |h| < ~100 ulp(x)) are outside the inductive argument",
              "first_step >= 16 ulp of the span ends; first_step <= max_step (C11's precondition)"]

PROPS["C18"].update({"r": {"quick": _step_units("c18", "quick"), "thorough": _step_units("c18", "thorough")},
                     "k": {"quick": [], "thorough": []}, "level": "other",
                     "explanation": _ST_EXPL + " C18: on every path the advance of evals.ode / evals.jac / steps.accepted equals the number of right-hand-side calls / Jacobian calls / callbacks made on that path; steps.total advances at least as much as accepted.",
                     "assumptions": _ST_ASSUME, "files": _ST_FILES,
                     "outside": ["Radau/BDF (not yet interpreted by R)", "zero-length run counters (trivial constant zeros in solve_ivp)"]})
PROPS["C03"] = {"level": "other", "r": {"quick": _step_units("c03", "quick"), "thorough": _step_units("c03", "thorough")},
                "files": _ST_FILES, "functions": ["RK4/RK23/DOPRI5/DOP853::solve (prefix + main loop)"],
                "explanation": _ST_EXPL + " C03: every RHS call time lies in [x0,xend] (+-4ulp); callback xold is the previous x; accepted steps move toward xend; Success only at xend; UserInterrupt iff Interrupt; the loop-head invariant (x between x0 and xend, h toward xend, |h|<=max_step, last==false) is established by the prefix and preserved.",
                "assumptions": _ST_ASSUME, "bounds": "n=1; all feasible paths through one iteration from an arbitrary loop-head state",
                "outside": ["Radau, BDF", "DefaultSolOut layer (see C05/C12)", "NaN/inf right-hand sides (C04, engine K)"]}
PROPS["C19"] = {"level": "other", "r": {"quick": _step_units("c19", "quick"), "thorough": _step_units("c19", "thorough")},
                "files": _ST_FILES, "functions": ["RK4/RK23/DOPRI5/DOP853::solve with an adversarial SolOut"],
                "explanation": _ST_EXPL + " C19: exactly one callback per accepted step with xold = previous x; Interrupt => UserInterrupt and no further evaluation; ModifiedSolution => the derivative is re-evaluated at (x, written state) and that derivative starts the next step; Continue/XOut => the derivative carried into the next step was evaluated at the accepted (x,y).",
                "assumptions": _ST_ASSUME, "bounds": "n=1; all feasible paths", "outside": ["Radau, BDF", "'doubling the state doubles everything' (relational)"]}
PROPS["C11"] = {"level": "other", "r": {"quick": _step_units("c11", "quick") + _step_units("c03", "quick") + [_rs().c03_prefix("RK23", False, with_first_step=False), _rs().c03_prefix("DOPRI5", False, with_first_step=False), _rs().c03_prefix("RK23", True, with_first_step=False)],
                                        "thorough": _step_units("c11", "thorough") + _step_units("c03", "thorough")},
                "files": _ST_FILES, "functions": ["solve() loop heads, step-size clamps, hinit"],
                "explanation": _ST_EXPL + " C11: accepted intervals <= max_step (1% stretch only on the landing step), |h| <= max_step is part of the preserved loop-head invariant; the first trial step is first_step signed toward xend; max_steps is read once per iteration against the total step count and, once exhausted, the run ends with NeedLargerNMax without further evaluations.",
                "assumptions": _ST_ASSUME, "bounds": "n=1; all feasible paths", "outside": ["bit-identical prefix of the unbudgeted run (relational)", "Radau, BDF"]}


# ------------------------------------------------------------------------------- output handler (R-round)
def _rh():
    import sys
    if VERIF not in sys.path:
        sys.path.insert(0, VERIF)
    from rsym import units_handler as UH
    return UH


def _handler_units(prop, tier):
    UH = _rh()
    q = tier == "quick"
    if prop == "c05":
        u = [UH.c05_teval(2, 2), UH.c05_teval(2, 2, backward=True), UH.c05_teval(3, 2), UH.c05_teval(2, 2, configs=[("All", 1)]),
             UH.c05_teval(2, 1, backward=True, configs=[("Negative", 1)])]
        if not q:
            u += [UH.c05_teval(3, 3), UH.c05_teval(3, 3, backward=True), UH.c05_teval(2, 2, configs=[("All", 1), ("All", None)]),
                  UH.c05_teval(3, 2, configs=[("Positive", 2)])]
        return u
    if prop == "c03":
        u = [UH.c03_mode2(2), UH.c03_mode2(3, backward=True), UH.c03_mode2(2, with_first_step=True), UH.c03_mode2(3, backward=True, with_first_step=True)]
        if not q:
            u += [UH.c03_mode2(4), UH.c03_mode2(3, with_first_step=True)]
        return u
    ev = lambda *a, **k: UH.events_unit(prop, *a, **k)
    # two event functions: exhaustive end-point sign patterns over ONE step (ordering / terminal-with-earlier-or-later facts
    # are single-step facts); two steps with two functions only in the thorough tier (thousands of paths)
    if prop == "c08":
        u = [ev(2, [("All", None)]), ev(1, [("Positive", None), ("Negative", None)]), ev(1, [("All", None), ("All", None)], backward=True),
             ev(2, [("Negative", None)], backward=True), ev(1, [("Positive", None)], with_first_step=True, event_values="rich"),
             ev(1, [("All", None)], event_values="rich"), ev(2, [("Positive", None)], with_first_step=True, event_values="near")]
        if not q:
            u += [ev(3, [("All", None)]), ev(2, [("All", None)], event_values="rich"), ev(2, [("Positive", None), ("Negative", None)]),
                  ev(2, [("Positive", None)], with_first_step=True, event_values="rich")]
        return u
    if prop == "c09":
        u = [ev(2, [("All", None)]), ev(2, [("Positive", None)], backward=True), ev(1, [("Negative", None), ("All", None)]),
             ev(2, [("All", None)], with_teval=1), ev(2, [("All", 2)]), ev(2, [("Negative", None)]), ev(1, [("All", None)], event_values="tiny"),
             ev(2, [("All", None)], event_values="tiny", backward=True)]
        if not q:
            u += [ev(3, [("Positive", None)]), ev(3, [("All", None)], backward=True), ev(2, [("Negative", None)], event_values="rich"),
                  ev(2, [("Negative", None), ("All", None)])]
        return u
    if prop == "c10":
        u = [ev(2, [("All", 1)]), ev(2, [("Positive", 2)]), ev(1, [("All", 1), ("All", None)]), ev(1, [("All", None), ("Negative", 1)], backward=True),
             ev(2, [("All", 1)], with_teval=1), ev(2, [("All", 1)], event_values="rich", backward=True), ev(1, [("All", 1), ("All", None)], backward=True)]
        if not q:
            u += [ev(3, [("All", 2)]), ev(2, [("All", 1), ("All", None)]), ev(3, [("Negative", 1)], backward=True),
                  ev(1, [("All", 1), ("All", None)], backward=True, with_teval=1)]
        return u
    if prop == "c12":
        u = [ev(2, [("All", None)], with_teval=1), ev(1, [("Positive", None), ("All", None)]), UH.c05_teval(2, 2, name="c12_teval_2steps_2times"),
             UH.c05_teval(3, 2, name="c12_teval_3steps_2times"), UH.c03_mode2(2, with_first_step=True), UH.c03_mode2(3, backward=True)]
        if not q:
            u += [ev(3, [("All", None)], with_teval=1, backward=True), UH.c05_teval(3, 3, name="c12_teval_3steps_3times"), ev(2, [("All", None)], with_teval=2)]
        return u
    raise KeyError(prop)


_H_FILES = ["src/solve/solout.rs", "src/solve/event.rs", "src/dense.rs", "src/solve/solve_ivp.rs"]
_H_EXPL = ("DefaultSolOut::new and ::solout are executed symbolically from the source, driven by an arbitrary protocol-conforming sequence of "
           "accepted steps (what C03/C19 guarantee about the steppers): step boundaries, requested times and first_step are z3 reals (the "
           "handler's own float operations carry a relative rounding error 2^-53 plus monotonicity), the interpolant is 'the value is the "
           "time' so which time a reported value was taken at is a term identity, event functions take end-point values from a finite set "
           "covering all sign patterns / exact zero / below-xtol magnitudes, and Brent's loop is bounded by an exact root at its first "
           "interior probe. Every feasible path is enumerated; every fact is a z3 query.")
_H_ASSUME = ["accepted steps longer than 4e-12 and above 16 ulp of x (shorter steps: known limitation of the handler's absolute 1e-12 slack, DESIGN section 8 row 10)",
             "|x| <= 1e6", "t_eval sorted in the direction of integration and inside the span",
             "Brent's convergence for arbitrary continuous g is outside every claim (exact root at the first interior probe)",
             "std's slice::sort_by modelled by an insertion sort with the real comparator"]

for _pid, _key, _extra in (("C05", "c05", ""), ("C08", "c08", ""), ("C09", "c09", ""), ("C10", "c10", ""), ("C12", "c12", "")):
    PROPS[_pid] = {"level": "other", "r": {"quick": _handler_units(_key, "quick"), "thorough": _handler_units(_key, "thorough")},
                   "files": _H_FILES, "functions": ["DefaultSolOut::new", "DefaultSolOut::solout"], "explanation": _H_EXPL,
                   "assumptions": _H_ASSUME, "bounds": {"quick": "2-3 steps, <= 2 requested times, <= 2 event functions", "thorough": "3 steps, 3 requested times, 2 event functions, rich end-point values"},
                   "outside": ["|g(t_e)| small for arbitrary continuous g (Brent convergence)", "accuracy of interpolated values (C01/C07)"]}
PROPS["C03"]["r"]["quick"] = PROPS["C03"]["r"]["quick"] + _handler_units("c03", "quick")
PROPS["C03"]["r"]["thorough"] = PROPS["C03"]["r"]["thorough"] + _handler_units("c03", "thorough")
PROPS["C03"]["files"] = PROPS["C03"]["files"] + ["src/solve/solout.rs"]
PROPS["C12"]["outside"] = ["bit-identity of whole runs with/without output options is not decided by a relational query: it follows from (a) the handler never modifies x/y and returns Continue and (b) solve_ivp configuring and calling the solver identically whatever t_eval/dense_output are -- both decided here (c12_* units, c03_solve_ivp_head) -- plus determinism of the solvers"]


def _c04_r(tier):
    US = _rs()
    combos = _EXPL_Q if tier == "quick" else _EXPL_T
    units = [US.c03_times(m, b) for m, b in combos]
    units += [US.c04_guard(m, b) for m, b in combos if m in ("DOPRI5", "DOP853")]
    return units


_C04_N = _names_from_macro("c04", "c04n")
_C04_K = _names_from_macro("c04", "c04") + _names_from_macro("c04", "c04_guard") + _C04_N
PROPS["C04"] = {
    "level": "other",
    "r": {"quick": _c04_r("quick"), "thorough": _c04_r("thorough")},
    # (c04_nan_reject_shrinks_dop853 is NOT registered: DOP853 evaluates f(x+h) after acceptance but BEFORE the callback, so the harness's
    #  "call stages+1 without a callback = retry after a rejection" reading is wrong for it -- a false alarm of the harness, DESIGN 4a)
    "k": {"quick": [n for n in _C04_K if "dop853" not in n and "back" not in n and "auto_h" not in n],
          "thorough": [n for n in _C04_K if n != "c04_nan_reject_shrinks_dop853"]},
    "caps": {"quick": {"timeout_s": 900, "mem_gb": 12}, "thorough": {"timeout_s": 3600, "mem_gb": 14}},
    "files": _ST_FILES, "functions": ["RK4/RK23/DOPRI5/DOP853::solve"],
    "explanation": ("Termination is an induction the solver does not run; what is decided are its premises. R (inductive step, every iteration, NaN-free): a rejected trial shrinks |h| by >= 5%, "
                    "an accepted step moves x toward xend, the loop-head invariant is preserved, the DOPRI-family underflow guard ends the run. K (Kani/CBMC, bit-precise, first trial, concrete time grid, "
                    "right-hand side may return NaN/inf): a rejected first trial -- including a NaN/inf error norm -- is retried with |h'| <= 0.95|h| pointing toward xend; Success implies finite states; "
                    "no panic; RK23's underflow guard fires for a step 2^-60 |x0|."),
    "assumptions": _ST_ASSUME + ["K: n=1, x0=0,xend=1 (and mirror), first trial only, powf contract model, paths longer than the call budget cut"],
    "stubs": ["f64::powf -> common::powf_model", "f64::powi -> common::powi_model", "IVP::ode -> nondeterministic incl. NaN/inf"],
    "bounds": "R: all iterations (inductive), normal range; K: first trial of the run",
    "outside": ["the induction to termination itself (ranking argument written in DESIGN.md)", "Radau, BDF", "NaN arriving after the first trial (same code path; not re-unrolled)"],
}


# ------------------------------------------------------------------------------- implicit-method kernels, C06 extras
def _ri():
    import sys
    if VERIF not in sys.path:
        sys.path.insert(0, VERIF)
    from rsym import units_impl as UI
    return UI


for _t in ("quick", "thorough"):
    PROPS["C02"]["r"][_t] = PROPS["C02"]["r"][_t] + [_ri().c02_radau_constants]
    _combos = _EXPL_Q if _t == "quick" else _EXPL_T
    PROPS["C06"]["r"][_t] = (PROPS["C06"]["r"][_t] + [_ri().c06_radau_dense, _ri().c06_bdf_rescaling]
                             + [_rs().c06_interp_span(m, b) for m, b in _combos]
                             + [_rh().c06_dense_collection(2), _rh().c06_dense_collection(3, backward=True)]
                             + [_rh().c06_lookup(2), _rh().c06_lookup(3, backward=True)])
PROPS["C02"]["files"] = PROPS["C02"]["files"] + ["src/methods/radau.rs"]
PROPS["C02"]["functions"] = PROPS["C02"]["functions"] + ["radau.rs constants (nodes, T/TI, eigenvalues, estimator weights)"]
PROPS["C02"]["outside"] = ["Radau's Newton iteration path (data-dependent convergence control): only its constants and loop-free kernels are decided",
                           "'accepted steps grow like tol^(-1/q)' (whole-run)", "coefficient errors below ~1e-13 relative"]
PROPS["C06"]["files"] = PROPS["C06"]["files"] + ["src/methods/radau.rs", "src/methods/bdf.rs", "src/solve/solout.rs", "src/solve/cont.rs", "src/solve/solution.rs", "src/dense.rs"]
PROPS["C06"]["functions"] = ["dense-output blocks + interpolate() of RK4/RK23/DOPRI5/DOP853", "RADAU dense block + RADAU::interpolate", "bdf.rs change_d/compute_r/matmul + BDF::interpolate",
                             "accepted-step tail of each explicit solve() (interpolant handed to the callback)", "DefaultSolOut dense collection", "ContinuousOutput::from_segments/t_span/evaluate/find_segment", "Solution::sol"]
PROPS["C06"]["explanation"] = ("Endpoint identities of every step interpolant (explicit methods: extracted from the executed step; Radau: the four collocation interpolation conditions on the AST slice of its dense block; "
                               "BDF: change_d preserves the interpolating polynomial for orders 1..5 and all factors), the interpolant handed to the callback spans exactly the accepted step bit-for-bit (term identity), "
                               "the handler collects exactly one segment per accepted step whatever its length, and the segment lookup / range errors of ContinuousOutput and Solution::sol on symbolic contiguous segments.")
PROPS["C06"]["bounds"] = "n=1; one step (identities) / 2-3 contiguous segments (lookup); exact reals for identities, reals with rounding for lookup comparisons"
PROPS["C06"]["outside"] = ["float continuity beyond rounding", "BDF endpoint identities after the accepted-step update of the difference array", "zero-length run (constant segment)"]


PROPS["C15"] = {
    "level": "model_checking",
    "k": {"quick": _names_from_macro("c15", "mass_default") + _names_from_macro("c15", "storage_indep") + ["c15_fd_jacobian_linear_n2"],
          "thorough": _names_from_macro("c15", "mass_default") + _names_from_macro("c15", "storage_indep") + ["c15_fd_jacobian_linear_n2"]},
    "files": ["src/ivp.rs", "src/matrix/base.rs", "src/matrix/index.rs", "src/methods/radau.rs"],
    "functions": ["IVP::mass (default)", "IVP::jac (default finite differences)", "Matrix::from_storage + Index/IndexMut"],
    "explanation": "Kani/CBMC over the compiled crate: the trait's default mass leaves the identity in the pre-allocated matrix of every storage kind; Full and Banded storage holding the same in-band entries read back bit-identical entries at a symbolic (i,j) (what Radau/BDF read through Index, so identical float operations follow); the default finite-difference Jacobian on a linear RHS with symbolic small-integer coefficients uses n+1 evaluations at time x and reproduces the coefficients.",
    "bounds": "n<=3, concrete band profiles, symbolic entries; FD Jacobian n=2, coefficients in [-3,3], y in [-2,2]^2",
    "assumptions": ["bit-identical trajectories for different storages follow from identical reads (argument, not a query)"],
    "outside": ["agreement of M y' = f with y' = M^-1 f within tolerance, DAE constraint residuals, analytic-vs-FD trajectories (whole-run numerics)", "Radau's E1/E2 assembly (not interpreted)"],
    "stubs": [],
}
PROPS["C20"] = {
    "level": "model_checking",
    "features": ("python",),
    "target": "kani_py",
    "k": {"quick": ["c20_grouping_n3_len1", "c20_grouping_n3_len2"], "thorough": _names_from_macro("c20", "grouping")},
    "caps": {"quick": {"timeout_s": 600, "mem_gb": 12}, "thorough": {"timeout_s": 3600, "mem_gb": 30}},
    "files": ["src/python/sparsity.rs"],
    "functions": ["python::sparsity::group_columns (through the verif-hooks forwarder)"],
    "explanation": "Kani/CBMC over the crate built with --features python (PYO3_NO_PYTHON=1): for every sparsity pattern with the stated fixed column lengths, every column gets a group below n_groups and two columns sharing a row never share a group. ONLY the sparsity-grouping clause of C20 is decided; nothing about the Python-visible result is.",
    "bounds": "n=3 (1-2 non-zeros per column), n=4 (2-3 non-zeros per column); row indices symbolic",
    "assumptions": ["column lists of fixed length per harness"],
    "outside": ["the whole PyO3/NumPy binding layer (transposition, status mapping, args forwarding, option parsing, sol() shapes): not encodable, not decided", "sparse_jacobian_fd values"],
    "stubs": [],
}


def _c20_r(tier):
    import sys
    if VERIF not in sys.path:
        sys.path.insert(0, VERIF)
    from rsym import units_c20 as U20
    u = [U20.c20_extrapolate_lookup(2), U20.c20_extrapolate_lookup(2, True), U20.c20_extrapolate_lookup(3, True)]
    if tier != "quick":
        u += [U20.c20_extrapolate_lookup(3), U20.c20_extrapolate_lookup(4), U20.c20_extrapolate_lookup(4, True)]
    return u


PROPS["C15"]["r"] = {"quick": [_ri().c15_radau_mass_products], "thorough": [_ri().c15_radau_mass_products]}
PROPS["C15"]["functions"] = PROPS["C15"]["functions"] + ["RADAU::solve: E1/E2 assembly, Newton right-hand side and error-estimate blocks (AST slices by their reads of `mass`)"]
PROPS["C15"]["explanation"] += (" Engine R (source-level symbolic execution, exact arithmetic, n=2, all M, J, vectors): every block of RADAU::solve that reads the mass matrix uses it as M at the right entry -- "
                                "E1 = (U1/h)M - J, E2 = ((ALPH/h)M - J) + i(BETA/h)M entrywise, the Newton right-hand side subtracts (M f_k)_i, the error estimate forms (M f1)_i + f0_i; "
                                "a violation is confirmed natively by integrating M y' = A y (non-symmetric M) against y' = M^-1 A y.")
PROPS["C15"]["outside"] = [o.replace("Radau's E1/E2 assembly (not interpreted)", "Radau's Newton iteration as a whole (convergence, step control)") for o in PROPS["C15"]["outside"]]
PROPS["C20"]["r"] = {"quick": _c20_r("quick"), "thorough": _c20_r("thorough")}
PROPS["C20"]["files"] = PROPS["C20"]["files"] + ["src/solve/cont.rs", "src/dense.rs"]
PROPS["C20"]["functions"] = PROPS["C20"]["functions"] + ["ContinuousOutput::evaluate / find_segment / evaluate_extrapolate / find_segment_extrapolate (the lookup behind the binding's sol(t))"]
PROPS["C20"]["explanation"] += (" Second clause decided (engine R, source-level symbolic execution + z3): the segment lookup behind the binding's callable `sol` (ContinuousOutput::evaluate_extrapolate) "
                                "agrees with the strict lookup behind the Rust Solution::sol on every time inside the covered span (same stored segment, hence the same numbers), never returns nothing while "
                                "segments exist, and uses an end segment outside the span; symbolic contiguous segments, both directions.")
PROPS["C20"]["bounds"] += "; R: 2-3 (thorough 4) contiguous segments, symbolic boundaries and query time"


# ------------------------------------------------------------------------------- C01 / C13 (R-exact)
def _rc():
    import sys
    if VERIF not in sys.path:
        sys.path.insert(0, VERIF)
    from rsym import units_c01 as UC
    return UC


def _c01(tier):
    UC, US = _rc(), _rs()
    u = [UC.c01_radau_tolerance, UC.c01_acceptance("RK23"), UC.c01_acceptance("DOPRI5"), UC.c01_acceptance("RK23", 2),
         US.c03_prefix("RK23", False, with_first_step=False), US.c03_prefix("DOPRI5", False, with_first_step=False)]
    if tier != "quick":
        u += [UC.c01_acceptance("DOPRI5", 2), US.c03_prefix("DOP853", False, with_first_step=False), US.c03_prefix("RK23", True, with_first_step=False)]
    # the other two premises of the accuracy theorem: the step is of order p as applied (C02) and the values handed out
    # between step ends come from an interpolant of order q evaluated from the step's own stages (C07)
    U = _r()
    u += [U.order_unit(m, max_order=7) if (m == "DOP853" and tier == "quick") else U.order_unit(m) for m in ("RK4", "RK23", "DOPRI5", "DOP853")]
    u += [U.dense_unit(m) for m in ("RK4", "RK23", "DOPRI5", "DOP853")]
    return u


def _c13(tier):
    UC = _rc()
    u = [UC.c01_radau_tolerance, UC.c13_scalar_vector("RK23"), UC.c13_scalar_vector("DOPRI5"), UC.c13_reflection("RK4"), UC.c13_reflection("RK23"),
         UC.c13_reflection("DOPRI5"), UC.c13_duplicated("RK23"), UC.c13_duplicated("DOPRI5")]
    if tier != "quick":
        u += [UC.c13_reflection("DOP853"), UC.c13_scalar_vector("DOP853")]
    US = _rs()
    # backward-direction inductive step of the step-size control (a direction slip in hnew/landing logic shows here) ...
    u += [US.c03_times("RK23", True), US.c03_times("DOPRI5", True), US.c03_times("DOP853", True)]
    # ... and the backward half of the event handling (mirrored event sets: order of integration, terminal stop, earlier events kept)
    UH = _rh()
    u += [UH.events_unit("c10", 1, [("All", 1), ("All", None)], backward=True), UH.events_unit("c10", 1, [("All", None), ("Negative", 1)], backward=True),
          UH.events_unit("c08", 2, [("Negative", None)], backward=True)]
    return u


PROPS["C01"] = {
    "level": "other", "r": {"quick": _c01("quick"), "thorough": _c01("thorough")},
    "files": ["src/methods/rk4.rs", "src/methods/rk23.rs", "src/methods/dopri5.rs", "src/methods/dop853.rs", "src/methods/radau.rs", "src/methods/mod.rs"],
    "functions": ["RK4/RK23/DOPRI5/DOP853::solve (one iteration: stages, update, dense block)", "error-estimation blocks and accept tests of RK23/DOPRI5", "RADAU::solve tolerance adjustment", "Tolerance Index/IndexMut", "hinit (through the solve() prefix)"],
    "explanation": ("ONLY the per-step error-control contract is decided, not global accuracy: (1) from the symbolically executed step, z3 proves for all y,h,k and positive tolerances that an accepted step "
                    "has |error estimate_i| <= sqrt(n)(atol_i + rtol_i max(|y_i|,|y_new_i|)) (n = 1, 2); (2) Radau's tolerance transformation is applied exactly once per component for scalar and vector "
                    "tolerances (the real Index/IndexMut impls of Tolerance are interpreted); (3) the automatic initial step respects max_step and the direction (prefix paths with first_step = None); "
                    "(4) the two other premises of the accuracy theorem, shared with C02/C07: all order conditions of the step as applied, and the continuous order conditions of the interpolant built from the step's own stages."),
    "assumptions": ["floats as reals", "the estimator's weights are C02's job"], "bounds": "n <= 2; one step",
    "trusted_base": ["local error control + order => tolerance-proportional global error (standard theorem; NOT decided here)"],
    "outside": ["any statement about the size of the global error, its proportionality to rtol, RK4's fourth-order convergence, t_eval accuracy: whole-run numerical claims, no solver query decides them",
                "DOP853's mixed 5/3 error norm, Radau/BDF error norms"],
}
PROPS["C13"] = {
    "level": "other", "r": {"quick": _c13("quick"), "thorough": _c13("thorough")},
    "files": ["src/methods/rk4.rs", "src/methods/rk23.rs", "src/methods/dopri5.rs", "src/methods/dop853.rs", "src/methods/radau.rs", "src/methods/mod.rs", "src/solve/solout.rs"],
    "functions": ["one main-loop iteration of each explicit solve(), forward and backward", "Tolerance Index/IndexMut", "RADAU tolerance adjustment", "DefaultSolOut::solout (backward event handling)"],
    "explanation": ("Equivariance in EXACT arithmetic, decided by z3 on the symbolically executed step: scalar tolerance == constant vector (error test and new state identical; Radau's transformation too); "
                    "time reflection (backward step applies the same tableau, interpolant, FSAL, and an error norm invariant under (x,h,k) -> (-x,-h,-k)); duplicated system (RMS norm of (e,e) equals that of (e)); "
                    "plus the backward-direction inductive step of the step-size control (C03 units, backward: RK23, DOPRI5, DOP853) and the backward half of the output handler's event processing "
                    "(order of integration, terminal stop, earlier events of the step kept: the facts that make a reflected problem's event set the mirror image)."),
    "assumptions": ["floats as reals: a pure rounding asymmetry is not visible"], "bounds": "n <= 2; one iteration",
    "outside": ["bit-for-bit identity of reflected/scaled runs (relational bit-precise queries: no verdict within reach, DESIGN section 3a)", "power-of-two state scaling", "implicit methods beyond Radau's tolerance handling",
                "event-time mirroring beyond the handler's backward units (C08-C10)"],
}


# Radau's rejection branch with a NaN / inf error norm, bit-precisely (R over z3 Float64 terms on the source slice)
for _t in ("quick", "thorough"):
    PROPS["C04"]["r"][_t] = PROPS["C04"]["r"][_t] + [_ri().c04_radau_controller_nan, _ri().c04_dop_controller_nan("DOP853")]
PROPS["C04"]["r"]["thorough"] = PROPS["C04"]["r"]["thorough"] + [_ri().c04_dop_controller_nan("DOPRI5")]
PROPS["C04"]["files"] = PROPS["C04"]["files"] + ["src/methods/radau.rs"]
PROPS["C04"]["explanation"] += (" Radau (engine R, bit-precise): the controller statements fac/quot/hnew and the rejection arm of `if err <= 1.0`, sliced from the source and executed over z3 Float64 terms "
                                "(NaN, infinities, Rust's max/min/clamp semantics): a NaN or +inf error norm is rejected and the next step is finite, points the same way and is <= 0.95|h|, for every finite h and "
                                "every controller parameter in its documented range; confirmed natively through solve_ivp with a right-hand side that turns NaN (hang detection).")
PROPS["C04"]["outside"] = [o.replace("Radau, BDF", "Radau beyond its rejection branch; BDF") for o in PROPS["C04"]["outside"]] + ["DOP853's NaN rejection through a whole first trial (its K harness misread the evaluation DOP853 makes between acceptance and callback and was withdrawn); what is decided instead is the bit-precise slice of its controller and rejection arm"]

# C03's last clause ("under Success all values produced by error-controlled methods are finite"): the NaN half, bit-precisely (K)
PROPS["C03"]["k"] = {"quick": [n for n in _C04_N if "dop853" not in n and "back" not in n], "thorough": _C04_N}
PROPS["C03"]["caps"] = {"quick": {"timeout_s": 900, "mem_gb": 12}, "thorough": {"timeout_s": 3600, "mem_gb": 14}}
PROPS["C03"]["stubs"] = ["f64::powf -> common::powf_model", "f64::powi -> common::powi_model", "IVP::ode -> NaN or a finite value of magnitude <= 1e6 (K harnesses only)"]
PROPS["C03"]["explanation"] += (" K (Kani/CBMC, bit-precise): with a right-hand side returning NaN or moderate finite values, a run whose first step lands on xend and reports Success "
                                "has handed no non-finite state to the callback (c04_success_nan_free_*: RK23, DOPRI5; DOP853 and backward in thorough).")
PROPS["C03"]["outside"] = PROPS["C03"]["outside"] + ["non-finite states produced by overflow of huge finite right-hand-side values (known finding under C04)"]

# BDF main loop (R-round, one iteration, newton_maxiter = 1)
def _rb():
    import sys
    if VERIF not in sys.path:
        sys.path.insert(0, VERIF)
    from rsym import units_bdf as UB
    return UB


_BDF_NOTE = (" BDF: the same inductive one-iteration execution of BDF::solve with the simplified Newton loop unrolled once (newton_maxiter = 1), "
             "the order enumerated 1..5, the LU factorisation succeeding or failing nondeterministically, matrices / difference array / norms as free data.")
for _p in ("C03", "C18", "C19", "C11"):
    PROPS[_p]["files"] = PROPS[_p]["files"] + ["src/methods/bdf.rs"]
    PROPS[_p]["explanation"] += _BDF_NOTE
    PROPS[_p]["outside"] = [o.replace("Radau, BDF", "Radau; BDF with more than one Newton iteration per step").replace("Radau/BDF (not yet interpreted by R)", "Radau; BDF with more than one Newton iteration per step") for o in PROPS[_p]["outside"]]
PROPS["C18"]["r"]["quick"] = PROPS["C18"]["r"]["quick"] + [_rb().bdf_iteration(False), _rb().bdf_iteration(True)]
PROPS["C18"]["r"]["thorough"] = PROPS["C18"]["r"]["thorough"] + [_rb().bdf_iteration(False), _rb().bdf_iteration(True)]
# "contiguous intervals ... ending at xend on success": the interval facts of the same iteration (callback xold = previous x, Success only at xend, invariant incl. `last`)
PROPS["C19"]["r"]["quick"] = PROPS["C19"]["r"]["quick"] + [_rs().c03_times(m, b) for m, b in _EXPL_Q]
PROPS["C19"]["r"]["thorough"] = PROPS["C19"]["r"]["thorough"] + [_rs().c03_times(m, b) for m, b in _EXPL_T]
PROPS["C19"]["r"]["quick"] = PROPS["C19"]["r"]["quick"] + [_rb().bdf_protocol(False), _rb().bdf_protocol(True)]
PROPS["C19"]["r"]["thorough"] = PROPS["C19"]["r"]["thorough"] + [_rb().bdf_protocol(False), _rb().bdf_protocol(True), _rb().bdf_iteration(False), _rb().bdf_iteration(True)]
PROPS["C03"]["r"]["quick"] = PROPS["C03"]["r"]["quick"] + [_rb().bdf_iteration(False), _rs().c03_prefix("RK23", False, with_first_step=False), _rs().c03_prefix("DOPRI5", False, with_first_step=False),
                                                           _rs().c03_prefix("RK23", True, with_first_step=False)]
PROPS["C05"]["r"]["quick"] = PROPS["C05"]["r"]["quick"] + [_rb().bdf_iteration(True)] + [_rs().c03_times(m, b) for m, b in _EXPL_Q if m in ("RK23", "DOPRI5")]
PROPS["C05"]["r"]["thorough"] = PROPS["C05"]["r"]["thorough"] + [_rs().c03_times(m, b) for m, b in _EXPL_T]
PROPS["C05"]["files"] = PROPS["C05"]["files"] + _ST_FILES + ["src/methods/bdf.rs"]
PROPS["C05"]["r"]["thorough"] = PROPS["C05"]["r"]["thorough"] + [_rb().bdf_iteration(False), _rb().bdf_iteration(True)]
PROPS["C03"]["r"]["thorough"] = PROPS["C03"]["r"]["thorough"] + [_rb().bdf_iteration(False), _rb().bdf_iteration(True)]
PROPS["C11"]["r"]["thorough"] = PROPS["C11"]["r"]["thorough"] + [_rb().bdf_iteration(False), _rb().bdf_iteration(True)]

# Radau (R-round): prefix on all paths (quick); one main-loop iteration with newton_maxiter = 1 (thorough: ~10 min of path enumeration)
def _rr():
    import sys
    if VERIF not in sys.path:
        sys.path.insert(0, VERIF)
    from rsym import units_radau as UR
    return UR


_RADAU_NOTE = (" Radau: the prefix of RADAU::solve on all paths (first_step / max_step present or absent, first_step NOT assumed shorter than the interval) establishes the loop-head invariant "
               "(x + h does not reach beyond xend, `last` exactly when the step ends on xend, |h| <= max_step with RADAU5's 0.01% landing stretch); thorough tier: one main-loop iteration "
               "(newton_maxiter = 1, LU nondeterministic, matrices / stage increments / norms / convergence bookkeeping free data) for the evaluation-time, callback, counter, status and protocol facts.")
for _p in ("C03", "C18", "C19"):
    PROPS[_p]["files"] = PROPS[_p]["files"] + ["src/methods/radau.rs"]
    PROPS[_p]["explanation"] += _RADAU_NOTE
    PROPS[_p]["outside"] = [o.replace("Radau; BDF with more", "Radau beyond one Newton iteration per step and the preservation of its loop-head invariant on accepted steps (no solver verdict within the cap); BDF with more") for o in PROPS[_p]["outside"]]
_RAD_PARTS = [_rr().radau_iteration(False, pt) for pt in _rr().PARTS]           # thorough: the full havoc in four parts (~15 min each)
_RAD_LITE = [_rr().radau_iteration(False, _rr().LITE, False)]                     # quick: reject/call flags fixed, first/last arbitrary (~3 min)
PROPS["C03"]["r"]["quick"] = PROPS["C03"]["r"]["quick"] + [_rr().radau_prefix(False), _rr().radau_prefix(True)] + _RAD_LITE
PROPS["C03"]["r"]["thorough"] = PROPS["C03"]["r"]["thorough"] + [_rr().radau_prefix(False), _rr().radau_prefix(True)] + _RAD_PARTS
PROPS["C18"]["r"]["quick"] = PROPS["C18"]["r"]["quick"] + [_rr().radau_prefix(False)] + _RAD_LITE
PROPS["C18"]["r"]["thorough"] = PROPS["C18"]["r"]["thorough"] + [_rr().radau_prefix(False), _rr().radau_newton(3)] + _RAD_PARTS
PROPS["C19"]["r"]["quick"] = PROPS["C19"]["r"]["quick"] + [_rr().radau_prefix(False), _rr().radau_initial_modified] + _RAD_LITE
PROPS["C19"]["r"]["thorough"] = PROPS["C19"]["r"]["thorough"] + [_rr().radau_initial_modified]
PROPS["C06"]["r"]["quick"] = PROPS["C06"]["r"]["quick"] + [_rb().bdf_interp_span(False), _rb().bdf_interp_span(True),
                                                           _rh().c06_dense_collection(2, configs=[("All", 1)]), _rh().c06_dense_collection(2, backward=True, configs=[("Negative", 1)])]
PROPS["C06"]["r"]["thorough"] = PROPS["C06"]["r"]["thorough"] + [_rb().bdf_interp_span(False), _rb().bdf_interp_span(True), _rr().radau_newton(3), _rr().radau_newton(3, True),
                                                                 _rh().c06_dense_collection(2, configs=[("All", 1)]), _rh().c06_dense_collection(3, backward=True, configs=[("Negative", 1)])]
PROPS["C06"]["files"] = PROPS["C06"]["files"] + ["src/methods/bdf.rs", "src/methods/radau.rs"]
PROPS["C13"]["r"]["quick"] = PROPS["C13"]["r"]["quick"] + [_ri().c13_radau_rms, _rc().c13_duplicated_hinit]
PROPS["C13"]["r"]["thorough"] = PROPS["C13"]["r"]["thorough"] + [_ri().c13_radau_rms, _rc().c13_duplicated_hinit]
PROPS["C19"]["r"]["thorough"] = PROPS["C19"]["r"]["thorough"] + [_rr().radau_prefix(False), _rr().radau_protocol(False)]
PROPS["C11"]["r"]["quick"] = PROPS["C11"]["r"]["quick"] + [_rr().radau_prefix(False)]
PROPS["C11"]["files"] = PROPS["C11"]["files"] + ["src/methods/radau.rs"]

# solve_ivp head (zero-interval shortcut, what is handed to the handler)
for _t in ("quick", "thorough"):
    PROPS["C03"]["r"][_t] = PROPS["C03"]["r"][_t] + [_rh().solve_ivp_head]
    PROPS["C05"]["r"][_t] = PROPS["C05"]["r"][_t] + [_rh().solve_ivp_head]
    PROPS["C11"]["r"][_t] = PROPS["C11"]["r"][_t] + [_rh().solve_ivp_head]
    PROPS["C12"]["r"][_t] = PROPS["C12"]["r"][_t] + [_rh().solve_ivp_head]
