"""Engine K driver: builds the Kani harness crate against /repo's working tree and runs
selected harnesses through goto-cc / goto-instrument / cbmc in parallel.

The per-harness pipeline replicates what kani-driver 0.68.0 runs for
`cargo kani -Z stubbing --no-overflow-checks --no-assertion-reach-checks` (captured with
--verbose); we run it ourselves to get per-harness time/memory limits, parallelism and the raw
per-property CBMC results (kani-driver's own parallel mode mis-parses truncated output).
"""
import glob
import json
import os
import re
import resource
import shutil
import subprocess
import sys
import time
from concurrent.futures import ThreadPoolExecutor

VERIF = os.path.dirname(os.path.dirname(os.path.abspath(__file__)))
KANI_CRATE = os.path.join(VERIF, "kani")
BUILD = os.environ.get("VERIF_BUILD_DIR", os.path.join(VERIF, ".build"))
KANI_LIB_C = "/root/.kani/kani-0.68.0/library/kani/kani_lib.c"

CBMC_FLAGS = [
    "--no-malloc-may-fail", "--no-undefined-shift-check", "--no-signed-overflow-check",
    "--no-div-by-zero-check", "--no-self-loops-to-assumptions", "--no-pointer-primitive-check",
    "--object-bits", "16", "--sat-solver", "cadical", "--slice-formula",
]

ENV = dict(os.environ, CARGO_NET_OFFLINE="true", PYO3_NO_PYTHON="1")


def _run(cmd, **kw):
    return subprocess.run(cmd, stdout=subprocess.PIPE, stderr=subprocess.STDOUT, text=True, env=ENV, **kw)


def codegen(filters, features=(), target_name="kani", log=None):
    """Compile the harness crate (and /repo, from its current working tree) with kani-compiler
    for every harness whose name contains one of `filters`. Returns {pretty_name: metadata}."""
    tdir = os.path.join(BUILD, target_name)
    crate_out = os.path.join(tdir, "kani", "x86_64-unknown-linux-gnu", "debug", "build", "ivp-verif-kani")
    shutil.rmtree(crate_out, ignore_errors=True)
    cmd = ["cargo", "kani", "--only-codegen", "--target-dir", tdir, "-Z", "stubbing",
           "--no-overflow-checks", "--no-assertion-reach-checks"]
    if features:
        cmd += ["--features", ",".join(features)]
    for f in filters:
        cmd += ["--harness", f]
    t0 = time.time()
    p = _run(cmd, cwd=KANI_CRATE)
    if log:
        with open(log, "w") as fh:
            fh.write(p.stdout)
    if p.returncode != 0:
        errs = [l for l in p.stdout.splitlines() if l.startswith("error")]
        raise BuildError("kani codegen failed: " + "; ".join(errs[:5]), p.stdout)
    metas = glob.glob(os.path.join(crate_out, "*", "out", "*.kani-metadata.json"))
    if not metas:
        raise BuildError("no kani metadata produced", p.stdout)
    meta = json.load(open(max(metas, key=os.path.getmtime)))
    out = {}
    for h in meta["proof_harnesses"]:
        out[h["pretty_name"].split("::")[-1]] = h
    return out, time.time() - t0


class BuildError(Exception):
    def __init__(self, msg, output=""):
        super().__init__(msg)
        self.output = output


def _limits(mem_gb):
    def f():
        lim = int(mem_gb * (1 << 30))
        resource.setrlimit(resource.RLIMIT_AS, (lim, lim))
        os.setsid()
    return f


_PROP_CLASS = re.compile(r"\.([a-z_\-]+)\.\d+$")


def prop_class(name):
    m = _PROP_CLASS.search(name or "")
    return m.group(1) if m else ""


def run_harness(h, timeout_s=600, mem_gb=12, unwind=None, keep_trace=False, extra_flags=()):
    """Run one harness (metadata dict from codegen). Returns a result dict with verdict in
    {'pass','fail','inconclusive'}; 'fail' lists the violated properties."""
    t0 = time.time()
    sym = h["goto_file"]
    work = sym[: -len(".symtab.out")] + ".run.out"
    res = {"harness": h["pretty_name"].split("::")[-1], "should_panic": h["attributes"]["should_panic"],
           "stubs": [f'{s["original"]} -> {s["replacement"]}' for s in h["attributes"].get("stubs", [])],
           "unwind": unwind or h["attributes"]["unwind_value"]}
    steps = [
        ["goto-cc", sym, KANI_LIB_C, "-o", work],
        ["goto-cc", work, "--function", h["mangled_name"], "-o", work],
        ["goto-instrument", "--add-library", "--no-malloc-may-fail", work, work],
        ["goto-instrument", "--generate-function-body-options", "assert-false-assume-false",
         "--generate-function-body", ".*", "--drop-unused-functions", work, work],
        ["goto-instrument", "--ensure-one-backedge-per-target", work, work],
    ]
    for c in steps:
        p = _run(c)
        if p.returncode != 0:
            res.update(verdict="inconclusive", reason=f"{c[0]} failed: {p.stdout[-300:]}", wall_s=time.time() - t0)
            return res
    cmd = ["cbmc"] + CBMC_FLAGS + list(extra_flags)
    if res["unwind"]:
        cmd += ["--unwind", str(res["unwind"])]
    if keep_trace:
        cmd += ["--trace"]
    cmd += [work, "--verbosity", "8", "--json-ui"]
    outp = work + ".json"
    try:
        with open(outp, "w") as fh:
            p = subprocess.Popen(cmd, stdout=fh, stderr=subprocess.STDOUT, env=ENV, preexec_fn=_limits(mem_gb))
            try:
                rc = p.wait(timeout=timeout_s)
            except subprocess.TimeoutExpired:
                os.killpg(p.pid, 9)
                p.wait()
                res.update(verdict="inconclusive", reason=f"timeout after {timeout_s}s", wall_s=time.time() - t0)
                return res
    finally:
        try:
            os.remove(work)
        except OSError:
            pass
    res["wall_s"] = round(time.time() - t0, 2)
    res["cbmc_rc"] = rc
    try:
        data = json.load(open(outp))
    except Exception as e:  # truncated output: cbmc died (out of memory)
        tail = open(outp, errors="replace").read()[-400:]
        res.update(verdict="inconclusive", reason=f"cbmc output not parseable (rc={rc}; likely out of memory): {tail[-200:]!r}")
        return res
    finally:
        if not keep_trace:
            try:
                os.remove(outp)
            except OSError:
                pass
    results = None
    status = None
    stats = {}
    for item in data:
        if "result" in item:
            results = item["result"]
        if "cProverStatus" in item:
            status = item["cProverStatus"]
        mt = item.get("messageText", "")
        m = re.search(r"(\d+) variables, (\d+) clauses", mt)
        if m:
            stats["sat_variables"] = max(stats.get("sat_variables", 0), int(m.group(1)))
            stats["sat_clauses"] = max(stats.get("sat_clauses", 0), int(m.group(2)))
        m = re.search(r"Runtime Solver: ([\d.]+)s", mt)
        if m:
            stats["solver_s"] = round(stats.get("solver_s", 0.0) + float(m.group(1)), 3)
        m = re.search(r"Runtime Symex: ([\d.]+)s", mt)
        if m:
            stats["symex_s"] = float(m.group(1))
        m = re.search(r"Generated (\d+) VCC\(s\), (\d+) remaining", mt)
        if m:
            stats["vccs"] = int(m.group(1))
            stats["vccs_remaining"] = int(m.group(2))
        if item.get("messageType") == "ERROR":
            stats.setdefault("errors", []).append(mt[:200])
    res.update(stats)
    if results is None:
        res.update(verdict="inconclusive", reason=f"no result section (status={status}, errors={stats.get('errors')})")
        return res
    failed, covers, unwind_fail, other = [], [], [], []
    for r in results:
        cls = prop_class(r.get("property", ""))
        st = r.get("status")
        entry = {"property": r.get("property"), "description": r.get("description"), "status": st,
                 "where": _loc(r)}
        if cls == "cover":
            covers.append(entry)
            continue
        if st == "SUCCESS":
            continue
        if st == "FAILURE":
            if cls == "unwind" or "unwinding assertion" in (r.get("description") or ""):
                unwind_fail.append(entry)
            else:
                failed.append(entry)
                if keep_trace and "trace" in r:
                    entry["trace"] = r["trace"]
        else:
            other.append(entry)
    res["n_properties"] = len(results)
    res["covers"] = [{"description": c["description"], "satisfied": c["status"] == "FAILURE"} for c in covers]
    if unwind_fail:
        res.update(verdict="inconclusive", reason="unwinding assertion failed: " + unwind_fail[0]["where"],
                   failed=failed[:5])
        return res
    if other:
        res.update(verdict="inconclusive", reason=f"property status {other[0]['status']}: {other[0]['description']}")
        return res
    if res["should_panic"]:
        if failed:
            res.update(verdict="pass", panics=len(failed))
        else:
            res.update(verdict="fail", failed=[{"description": "expected a panic, none is reachable", "property": "should_panic", "where": ""}])
        return res
    if failed:
        res.update(verdict="fail", failed=failed[:8])
        return res
    unsat = [c for c in res["covers"] if not c["satisfied"] and not (c["description"] or "").startswith("info:")]
    if unsat:
        res.update(verdict="inconclusive", reason="vacuity witness not reachable: " + unsat[0]["description"])
        return res
    res["verdict"] = "pass"
    return res


def _loc(r):
    s = r.get("sourceLocation") or {}
    return f'{s.get("file", "?")}:{s.get("line", "?")} {s.get("function", "")[:80]}'


def run_many(metas, names, jobs=12, timeout_s=600, mem_gb=12, progress=None, per_harness=None):
    """Run harnesses `names` in parallel. per_harness: optional {name: {timeout_s, mem_gb}}."""
    out = {}

    def one(n):
        if n not in metas:
            return n, {"harness": n, "verdict": "inconclusive", "reason": "harness not found in the compiled crate"}
        kw = dict(timeout_s=timeout_s, mem_gb=mem_gb)
        kw.update((per_harness or {}).get(n, {}))
        r = run_harness(metas[n], **kw)
        if progress:
            progress(r)
        return n, r

    with ThreadPoolExecutor(max_workers=jobs) as ex:
        for n, r in ex.map(one, names):
            out[n] = r
    return out


def playback(harness_pretty, timeout_s=900, features=()):
    """Ask Kani for concrete-playback unit tests for a failing harness, run them natively
    (dev profile, real powf/sort, no stubs) in a scratch copy of the harness crate, and report
    whether a failure reproduces. Returns (reproduced: bool|None, test_source, log)."""
    short = harness_pretty.replace("::", "_")
    scratch = os.path.join(BUILD, "playback", short)
    shutil.rmtree(scratch, ignore_errors=True)
    shutil.copytree(KANI_CRATE, scratch, ignore=shutil.ignore_patterns("target"))
    tdir = os.path.join(BUILD, "playback_target")
    cmd = ["cargo", "kani", "--target-dir", tdir, "-Z", "stubbing", "-Z", "concrete-playback",
           "--concrete-playback=print", "--no-overflow-checks", "--no-assertion-reach-checks",
           "--harness", harness_pretty, "--exact"]
    feat = ["--features", ",".join(features)] if features else []
    cmd += feat
    tdir = tdir + ("_" + "_".join(features) if features else "")
    cmd[cmd.index("--target-dir") + 1] = tdir
    try:
        p = _run(cmd, cwd=scratch, timeout=timeout_s)
    except subprocess.TimeoutExpired:
        return None, "", "concrete playback generation timed out"
    blocks = re.findall(r"```\n(.*?)\n```", p.stdout, re.S)
    tests = [b for b in blocks if "fn kani_concrete_playback_" in b and "Check for `cover`" not in b]
    if not tests:
        return None, "", "no playback test generated:\n" + p.stdout[-1500:]
    src = "\n\n".join(tests)
    module = harness_pretty.split("::")[0]
    mfile = os.path.join(scratch, "src", module + ".rs")
    with open(mfile, "a") as fh:
        fh.write("\n#[cfg(test)]\nmod verif_playback {\n    use super::*;\n" + src + "\n}\n")
    try:
        q = _run(["cargo", "kani", "playback", "-Z", "concrete-playback"] + feat + ["--", "verif_playback"], cwd=scratch, timeout=timeout_s)
    except subprocess.TimeoutExpired:
        return None, src, "native playback timed out"
    finally:
        shutil.rmtree(os.path.join(scratch, "target"), ignore_errors=True)
    failed = re.search(r"test result: FAILED", q.stdout) is not None
    passed = re.search(r"test result: ok", q.stdout) is not None
    keep = "\n".join(l for l in q.stdout.splitlines() if not l.startswith(("warning", " ", "\t")) or "panicked" in l)
    return (True if failed else (False if passed else None)), src, keep[-3000:]
