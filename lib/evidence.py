"""Evidence file writer (schema: /root/.vp/EVIDENCE.schema.json)."""
import hashlib
import json
import os

VERIF = os.path.dirname(os.path.dirname(os.path.abspath(__file__)))


def file_hash(path):
    try:
        return hashlib.sha256(open(path, "rb").read()).hexdigest()[:16]
    except OSError:
        return None


def repo_hashes(files):
    return {f: file_hash(os.path.join("/repo", f)) for f in files}


def write(pid, tier, seed, level, coverage, assumptions, wall_s, violations, extra=None):
    os.makedirs(os.path.join(VERIF, "evidence"), exist_ok=True)
    ev = {
        "property_id": pid,
        "tier": tier,
        "seed": int(seed),
        "level": level,
        "coverage": coverage,
        "assumptions": assumptions,
        "wall_s": round(wall_s, 2),
        "violations": int(violations),
    }
    if extra:
        ev.update(extra)
    path = os.path.join(VERIF, "evidence", f"{pid}.json")
    tmp = path + ".tmp"
    with open(tmp, "w") as fh:
        json.dump(ev, fh, indent=1, sort_keys=False)
    os.replace(tmp, path)
    return path
