"""Known findings (committed file /verif/known_findings.txt, never written at run time).

Line formats:
  finding: property=<ID> unit=<glob over harness/query names> match=<substring of the failed
           property description or location> :: <what fails, shown in the KNOWN-FINDING line>
  fixed: property=<ID> <commit> <what failed>          (suppresses nothing)
"""
import fnmatch
import os
import re

VERIF = os.path.dirname(os.path.dirname(os.path.abspath(__file__)))
PATH = os.path.join(VERIF, "known_findings.txt")


def load():
    out = []
    if not os.path.exists(PATH):
        return out
    for line in open(PATH):
        line = line.strip()
        if not line.startswith("finding:"):
            continue
        head, _, what = line[len("finding:"):].partition("::")
        kv = dict(re.findall(r'(\w+)=("[^"]*"|\S+)', head))
        out.append({"property": kv.get("property"), "unit": kv.get("unit", "*").strip('"'),
                    "match": kv.get("match", "").strip('"'), "what": what.strip()})
    return out


def classify(pid, unit, failed_descriptions, findings=None):
    """Returns (known: list of finding dicts, unknown: list of descriptions)."""
    findings = load() if findings is None else findings
    known, unknown = [], []
    for d in failed_descriptions:
        hit = None
        for f in findings:
            if f["property"] == pid and fnmatch.fnmatch(unit, f["unit"]) and f["match"] in d:
                hit = f
                break
        if hit:
            if hit not in known:
                known.append(hit)
        else:
            unknown.append(d)
    return known, unknown
