#!/bin/sh
# Offline setup: warm the Kani build of the harness crate's dependencies (bon, ivp) so the first
# check does not pay for it. Every check rebuilds from /repo's working tree anyway.
set -e
cd "$(dirname "$0")"
export CARGO_NET_OFFLINE=true PYO3_NO_PYTHON=1
mkdir -p .build evidence
python3 - <<'PY'
import sys
sys.path.insert(0, "lib")
import kdriver
metas, s = kdriver.codegen(["c17_identity_write_panics"])
print(f"kani harness crate builds ({s:.0f}s, {len(metas)} harness)")
PY
python3-vt -c "import z3, sympy; print('z3', z3.get_version_string(), 'sympy', sympy.__version__)"
